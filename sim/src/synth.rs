//! State-revealing synthetic TrueType fonts: contaminator programs (fpgm/prep) that write
//! hinting state, and probe glyph programs that read state without initialising it and
//! move an outline point by what they read.

use serde::{Deserialize, Serialize};
use write_fonts::tables::glyf::{Bbox, Contour, GlyfLocaBuilder, SimpleGlyph};
use write_fonts::tables::{head::Head, hhea::Hhea, hmtx::Hmtx, maxp::Maxp};
use write_fonts::types::Tag;
use write_fonts::FontBuilder;

#[derive(Clone, Debug, Serialize, Deserialize, PartialEq, Eq, Hash)]
pub struct SynthSpec {
    /// which state the font/prep programs write: bit0 storage, bit1 cvt, bit2 function defs,
    /// bit3 instruction defs, bit4 twilight points
    pub contaminate: u8,
    /// sizes: 0 = small limits, 1 = large limits (exercises buffer growth/shrink)
    pub big: bool,
    pub cvt_len: u8,
    /// value salt so that two contaminators write different values
    pub salt: u8,
    /// prep raises a hinting error (failed configuration)
    pub bad_prep: bool,
}

pub const N_GLYPHS: u16 = 9;

fn pushb(v: &[u8]) -> Vec<u8> {
    assert!(!v.is_empty() && v.len() <= 8);
    let mut o = vec![0xB0 + (v.len() as u8 - 1)];
    o.extend_from_slice(v);
    o
}

fn cat(parts: &[Vec<u8>]) -> Vec<u8> {
    parts.concat()
}

const SHPIX: u8 = 0x38;
const RS: u8 = 0x43;
const WS: u8 = 0x42;
const RCVT: u8 = 0x45;
const WCVTP: u8 = 0x44;
const FDEF: u8 = 0x2C;
const ENDF: u8 = 0x2D;
const CALL: u8 = 0x2B;
const IDEF: u8 = 0x89;
const SZP2: u8 = 0x15;
const GC0: u8 = 0x46;
const SCFS: u8 = 0x48;
const SVTCA_X: u8 = 0x01;
const MDAP_RND: u8 = 0x2F;
const UNASSIGNED_OP: u8 = 0x8F;

pub fn probe_program(glyph: u16) -> Vec<u8> {
    match glyph {
        // move point 2 by storage[3]
        1 => cat(&[pushb(&[2]), pushb(&[3]), vec![RS, SHPIX]]),
        // move point 2 by cvt[1]
        2 => cat(&[pushb(&[2]), pushb(&[1]), vec![RCVT, SHPIX]]),
        // call function 2 (defined only by contaminators)
        3 => cat(&[pushb(&[2]), vec![CALL]]),
        // use an opcode that exists only through IDEF
        4 => vec![UNASSIGNED_OP],
        // move point 2 by the x coordinate of twilight point 1
        5 => cat(&[vec![SVTCA_X], pushb(&[2]), pushb(&[0]), vec![SZP2], pushb(&[1]), vec![GC0], pushb(&[1]), vec![SZP2, SHPIX]]),
        // glyph-time write then read of storage and cvt: must not leak into later draws
        6 => cat(&[pushb(&[3, 64]), vec![WS], pushb(&[1, 64]), vec![WCVTP], pushb(&[2]), pushb(&[3]), vec![RS, SHPIX]]),
        // pop from a stack nothing was ever pushed to and act on the values: outside pedantic mode an underflow
        // yields 0, whatever the memory the stack was carved from holds (move point 0 by 0 / round point 0)
        7 => vec![SHPIX],
        8 => vec![SVTCA_X, MDAP_RND],
        _ => vec![],
    }
}

pub fn build(spec: &SynthSpec) -> Vec<u8> {
    let s = spec.salt;
    let mut fpgm: Vec<u8> = Vec::new();
    let mut prep: Vec<u8> = Vec::new();
    if spec.contaminate & 4 != 0 {
        // FDEF 2: move point 1 by (64 + salt) / 64 px
        fpgm.extend(cat(&[pushb(&[2]), vec![FDEF], pushb(&[1, 64 + (s & 31)]), vec![SHPIX, ENDF]]));
    }
    if spec.contaminate & 8 != 0 {
        fpgm.extend(cat(&[pushb(&[UNASSIGNED_OP]), vec![IDEF], pushb(&[1, 32 + (s & 31)]), vec![SHPIX, ENDF]]));
    }
    if spec.contaminate & 1 != 0 {
        prep.extend(cat(&[pushb(&[3, 128u8.wrapping_add(s & 63)]), vec![WS], pushb(&[5, 7]), vec![WS]]));
    }
    if spec.contaminate & 2 != 0 {
        prep.extend(cat(&[pushb(&[1, 64 + (s & 63)]), vec![WCVTP]]));
    }
    if spec.contaminate & 16 != 0 {
        prep.extend(cat(&[vec![SVTCA_X], pushb(&[0]), vec![SZP2], pushb(&[1, 128u8.wrapping_add(s & 63)]), vec![SCFS]]));
    }
    if spec.bad_prep {
        // stack underflow: an error in every mode
        prep.extend(vec![WS]);
    }
    let (storage, fdefs, idefs, twilight) = if spec.big { (16, 8, 4, 8) } else { (8, 4, 2, 4) };
    let mut gb = GlyfLocaBuilder::new();
    let mut advances = Vec::new();
    for g in 0..N_GLYPHS {
        if g == 0 {
            gb.add_glyph(&SimpleGlyph::default()).expect("glyph");
            advances.push(500);
            continue;
        }
        let pts = vec![
            write_fonts::read::tables::glyf::CurvePoint::new(100, 0, true),
            write_fonts::read::tables::glyf::CurvePoint::new(600, 0, true),
            write_fonts::read::tables::glyf::CurvePoint::new(600 + 10 * g as i16, 700, true),
            write_fonts::read::tables::glyf::CurvePoint::new(100, 700, g % 2 == 0),
        ];
        let contour: Contour = pts.into();
        let mut sg = SimpleGlyph { bbox: Bbox { x_min: 100, y_min: 0, x_max: 600 + 10 * g as i16, y_max: 700 }, contours: vec![contour], instructions: probe_program(g) };
        sg.recompute_bounding_box();
        gb.add_glyph(&sg).expect("glyph");
        advances.push(700 + g);
    }
    let (glyf, loca, fmt) = gb.build();
    let mut b = FontBuilder::new();
    let head = Head { units_per_em: 1024, index_to_loc_format: fmt as i16, ..Default::default() };
    b.add_table(&head).expect("head");
    let maxp = Maxp {
        num_glyphs: N_GLYPHS,
        max_points: Some(8),
        max_contours: Some(2),
        max_composite_points: Some(0),
        max_composite_contours: Some(0),
        max_zones: Some(2),
        max_twilight_points: Some(twilight),
        max_storage: Some(storage),
        max_function_defs: Some(fdefs),
        max_instruction_defs: Some(idefs),
        max_stack_elements: Some(32),
        max_size_of_instructions: Some(64),
        max_component_elements: Some(0),
        max_component_depth: Some(0),
    };
    b.add_table(&maxp).expect("maxp");
    let hhea = Hhea { number_of_h_metrics: N_GLYPHS, ascender: 800.into(), descender: (-200).into(), ..Default::default() };
    b.add_table(&hhea).expect("hhea");
    let hmtx = Hmtx { h_metrics: advances.iter().map(|a| write_fonts::tables::hmtx::LongMetric { advance: *a, side_bearing: 100 }).collect(), left_side_bearings: vec![] };
    b.add_table(&hmtx).expect("hmtx");
    b.add_table(&glyf).expect("glyf");
    b.add_table(&loca).expect("loca");
    if !fpgm.is_empty() {
        b.add_raw(Tag::new(b"fpgm"), fpgm);
    }
    if !prep.is_empty() {
        b.add_raw(Tag::new(b"prep"), prep);
    }
    let mut cvt = Vec::new();
    for i in 0..spec.cvt_len {
        cvt.extend_from_slice(&((i as i16) * 3).to_be_bytes());
    }
    if !cvt.is_empty() {
        b.add_raw(Tag::new(b"cvt "), cvt);
    }
    b.build()
}

/// The fixed set of synthetic fonts used by the draw-history engines.
pub fn specs() -> Vec<SynthSpec> {
    let mut v = Vec::new();
    // pure probes
    v.push(SynthSpec { contaminate: 0, big: false, cvt_len: 4, salt: 0, bad_prep: false });
    v.push(SynthSpec { contaminate: 0, big: true, cvt_len: 8, salt: 0, bad_prep: false });
    v.push(SynthSpec { contaminate: 0, big: false, cvt_len: 2, salt: 0, bad_prep: false });
    // single-state contaminators, both sizes
    for bit in [1u8, 2, 4, 8, 16] {
        v.push(SynthSpec { contaminate: bit, big: false, cvt_len: 4, salt: 1, bad_prep: false });
        v.push(SynthSpec { contaminate: bit, big: true, cvt_len: 8, salt: 2, bad_prep: false });
    }
    // everything at once, two salts
    v.push(SynthSpec { contaminate: 31, big: false, cvt_len: 4, salt: 3, bad_prep: false });
    v.push(SynthSpec { contaminate: 31, big: true, cvt_len: 6, salt: 4, bad_prep: false });
    // failing configuration after having written state
    v.push(SynthSpec { contaminate: 31, big: false, cvt_len: 4, salt: 5, bad_prep: true });
    v
}

/// A font whose glyph 1 (a four-point square-ish contour) carries `glyph_prog`, with the given font and
/// control-value programs and control values; limits generous enough for generated programs.
pub fn build_custom(glyph_prog: &[u8], fpgm: &[u8], prep: &[u8], cvt: &[i16]) -> Vec<u8> {
    let mut gb = GlyfLocaBuilder::new();
    gb.add_glyph(&SimpleGlyph::default()).expect("glyph");
    let pts = vec![
        write_fonts::read::tables::glyf::CurvePoint::new(100, 0, true),
        write_fonts::read::tables::glyf::CurvePoint::new(600, 0, true),
        write_fonts::read::tables::glyf::CurvePoint::new(610, 700, true),
        write_fonts::read::tables::glyf::CurvePoint::new(100, 700, false),
        write_fonts::read::tables::glyf::CurvePoint::new(50, 350, true),
    ];
    let contour: Contour = pts.into();
    let mut sg = SimpleGlyph { bbox: Bbox { x_min: 50, y_min: 0, x_max: 610, y_max: 700 }, contours: vec![contour], instructions: glyph_prog.to_vec() };
    sg.recompute_bounding_box();
    gb.add_glyph(&sg).expect("glyph");
    let (glyf, loca, fmt) = gb.build();
    let mut b = FontBuilder::new();
    let head = Head { units_per_em: 1024, index_to_loc_format: fmt as i16, ..Default::default() };
    b.add_table(&head).expect("head");
    let maxp = Maxp {
        num_glyphs: 2,
        max_points: Some(8),
        max_contours: Some(2),
        max_composite_points: Some(0),
        max_composite_contours: Some(0),
        max_zones: Some(2),
        max_twilight_points: Some(6),
        max_storage: Some(8),
        max_function_defs: Some(4),
        max_instruction_defs: Some(2),
        max_stack_elements: Some(96),
        max_size_of_instructions: Some(1024),
        max_component_elements: Some(0),
        max_component_depth: Some(0),
    };
    b.add_table(&maxp).expect("maxp");
    let hhea = Hhea { number_of_h_metrics: 2, ascender: 800.into(), descender: (-200).into(), ..Default::default() };
    b.add_table(&hhea).expect("hhea");
    let hmtx = Hmtx { h_metrics: vec![write_fonts::tables::hmtx::LongMetric { advance: 500, side_bearing: 0 }, write_fonts::tables::hmtx::LongMetric { advance: 700, side_bearing: 50 }], left_side_bearings: vec![] };
    b.add_table(&hmtx).expect("hmtx");
    b.add_table(&glyf).expect("glyf");
    b.add_table(&loca).expect("loca");
    if !fpgm.is_empty() {
        b.add_raw(Tag::new(b"fpgm"), fpgm.to_vec());
    }
    if !prep.is_empty() {
        b.add_raw(Tag::new(b"prep"), prep.to_vec());
    }
    if !cvt.is_empty() {
        b.add_raw(Tag::new(b"cvt "), cvt.iter().flat_map(|v| v.to_be_bytes()).collect::<Vec<u8>>());
    }
    b.build()
}
