//! Panic attribution: records the first panic since the last reset.

use std::sync::Mutex;

#[derive(Clone, Debug, Default)]
pub struct PanicRecord {
    pub file: String,
    pub line: u32,
    pub msg: String,
}

static FIRST: Mutex<Option<PanicRecord>> = Mutex::new(None);

pub fn install() {
    std::panic::set_hook(Box::new(|info| {
        let (file, line) = info
            .location()
            .map(|l| (l.file().to_string(), l.line()))
            .unwrap_or_default();
        let msg = if let Some(s) = info.payload().downcast_ref::<&str>() {
            s.to_string()
        } else if let Some(s) = info.payload().downcast_ref::<String>() {
            s.clone()
        } else {
            "<non-string panic>".to_string()
        };
        if std::env::var_os("VERIF_BT").is_some() {
            eprintln!("panic at {file}:{line}:{}: {msg}\n{}", info.location().map(|l| l.column()).unwrap_or(0), std::backtrace::Backtrace::force_capture());
        }
        if let Ok(mut g) = FIRST.lock() {
            if g.is_none() {
                *g = Some(PanicRecord { file, line, msg });
            }
        }
    }));
}

pub fn reset() {
    if let Ok(mut g) = FIRST.lock() {
        *g = None;
    }
}

pub fn take() -> Option<PanicRecord> {
    FIRST.lock().ok().and_then(|mut g| g.take())
}

#[derive(Clone, Copy, Debug, PartialEq, Eq)]
pub enum PanicClass {
    /// location inside /verif: a harness bug, never a violation
    Harness,
    /// arithmetic overflow check
    Overflow,
    /// anything else raised by library or dependency code
    Plain,
}

impl PanicRecord {
    pub fn class(&self) -> PanicClass {
        let in_harness = self.file.starts_with("/verif/") || self.file.starts_with(&format!("{}/", super::verif_root())) || self.file.starts_with("src/");
        if in_harness {
            return PanicClass::Harness;
        }
        let m = &self.msg;
        if m.starts_with("attempt to ") && m.contains("overflow") {
            PanicClass::Overflow
        } else {
            PanicClass::Plain
        }
    }
    /// Site string without line number for known-finding matching, with it for display.
    pub fn site(&self) -> String {
        format!("{}:{}", self.file.trim_start_matches(&format!("{}/", super::repo_root())), self.line)
    }
    pub fn file_rel(&self) -> String {
        self.file.trim_start_matches(&format!("{}/", super::repo_root())).to_string()
    }
}
