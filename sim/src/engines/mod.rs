pub mod compile;
pub mod drawhist;
pub mod histmodels;
pub mod ift;
pub mod sched;
