#!/bin/bash
# usage: tools/eval_mutant.sh <patch.diff> <property> [extra ./check args]
# Applies a seeded change to /repo, runs the property's quick check with its
# outputs redirected away from /verif/evidence, and reverts /repo.
set -u
patch=$(realpath "$1"); prop=$2; shift 2
name=$(basename "$(dirname "$patch")")
git -C /repo diff --quiet || { echo "/repo not clean"; exit 2; }
git -C /repo apply "$patch" || { echo "patch does not apply"; exit 2; }
trap 'git -C /repo checkout -- .' EXIT
cd /verif
VERIF_OUT_DIR=/tmp/meval/$name-$prop ./check "$prop" --tier quick "$@" 2>&1 | grep -E "^OK|^VIOLATION|^KNOWN|HARNESS|oracle=|^NOTE" | cut -c1-400
echo "exit=${PIPESTATUS[0]}"
