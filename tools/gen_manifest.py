#!/usr/bin/env python3
"""Regenerates /verif/MANIFEST.json from the tables below (kept in one place so it stays valid)."""
import json, subprocess

HOOK_SUBJECT_PREFIX = "verif hook:"
hooks = [l.split()[0] for l in subprocess.check_output(["git", "-C", "/repo", "log", "--format=%h %s"]).decode().splitlines() if HOOK_SUBJECT_PREFIX in l][::-1]

NA_PURE = {
 "C03": "FreeType parity is a differential comparison of two deterministic functions against an external oracle; no state, schedule, clock or I/O for a simulator to own",
 "C04": "compile-then-read round-trip is a pure function of the table value; no schedule, fault or history in it",
 "C05": "packing one object graph is a pure function of that graph; its only shared state (the id counter) is the subject of C07",
 "C08": "cmap building and lookup are pure functions of the mapping",
 "C09": "glyf/loca encoding and decoding are pure functions of the glyph list",
 "C10": "gvar encoding, IUP optimisation and delta application are pure functions of the variation data and location",
 "C11": "variation-store building, delta evaluation and axis normalisation are pure functions of their inputs",
 "C15": "scalar and fixed-point conversions and arithmetic are pure functions",
 "C16": "layout builders and overflow splitting are pure functions of the rule sets (their run-to-run determinism is inside C07's job pool)",
 "C17": "what a subset preserves is a pure function of (font, plan); only its determinism across threads and history is simulated (C07)",
}

CLAIMED = {
 "C07": dict(engine="compile_determinism", category="exploration", ref="DESIGN.md section 4 C07",
   text="seeded search over thread interleavings at every object-id allocation, std HashMap keys, counter start values and prior-work histories; every job output compared with a quiet-world reference digest",
   note="samples schedules/hash seeds/histories, does not enumerate them; shuttle coroutines stand in for OS threads (only the AtomicU64 counter is shared); a second part runs the same jobs in freshly started child processes under other hash seeds and compares digests across processes; job pool: corpus tables, generated layout (pair/mark/single pos, reverse-chain subst)/gvar/IVS/cmap inputs, FontBuilder, klippa subsets and a font extended through the IFT client",
   technique="deterministic simulation: shuttle-scheduled compile tasks with seeded schedule, hash-seed and history injection; digest-agreement oracle"),
 "C18": dict(engine="iftworld", category="fault_enumeration", ref="DESIGN.md section 4 C18/C19",
   text="IFT deployment simulator (real client, simulated server/network/disk/decoder) checked after every apply against a specification-level model; decoder failure enumerated at every call index x every error kind inside each sampled world; transport, crash and persist faults sampled",
   note="worlds are generated (glyf/loca, gvar, CFF and CFF2 carriers incl. offset-size threshold worlds, format-1/2 maps, depth <= 3); brotli streams are stored meta-blocks through the real C decoder; model and encoder written from the spec and calibrated on the unchanged tree; two genuine defects are listed in known_findings.json",
   technique="deterministic simulation with fault injection: discrete-event IFT client/server world, reference-model refinement check, exhaustive decoder-fault enumeration per world"),
 "C19": dict(engine="iftworld", category="exploration", ref="DESIGN.md section 4 C18/C19",
   text="at every font state visited by simulated extension runs (fault-free and under transport/decoder/crash faults) the offered patch set is compared with a specification model for the driver's and extra definitions, monotonicity is checked on real outputs, selected groups are checked against the grouping/preference rules, and bounded progress is enforced",
   note="selection preference is checked in the stated order (codepoints, features, design space, entry order) with incomparable design spaces skipped; worlds include URIs shared between entries and (twin-table probe) between the IFT and IFTX tables",
   technique="deterministic simulation: extension histories to fixpoint in a simulated client/server world, model-based selection oracle and bounded-liveness check"),
}
try:
    extra = json.load(open('/verif/tools/claimed_extra.json'))
    CLAIMED.update(extra)
except FileNotFoundError:
    pass

ALL = ["C%02d" % i for i in range(1, 21)]
checks = []
for pid in ALL:
    if pid in CLAIMED:
        c = CLAIMED[pid]
        checks.append({
            "property_id": pid,
            "quick_cmd": f"./check {pid} --tier quick",
            "thorough_cmd": f"./check {pid} --tier thorough",
            "evidence_file": f"/verif/evidence/{pid}.json",
            "replay_cmd_template": f"./check {pid} --replay {{path}}",
            "engine": c["engine"],
            "level_claimed": {"category": c["category"], "text": c["text"], "design_ref": c["ref"]},
            "level_note": c["note"],
            "technique": c["technique"],
        })
na = []
for pid in ALL:
    if pid in CLAIMED:
        continue
    if pid in NA_PURE:
        na.append({"property_id": pid, "reason": NA_PURE[pid]})
    else:
        na.append({"property_id": pid, "reason": "engine not built yet (planned, see DESIGN.md section 10); not claimed until its check exists"})

m = {
 "version": 1,
 "setup_cmd": "./check --setup",
 "hooks": {
   "guard": "fontations_verif",
   "enable": "rustc --cfg fontations_verif via /verif/sim/.cargo/config.toml (build.rustflags); the simulator crate depends on /repo/<crate> by path, so every check compiles /repo's working tree",
   "baseline_off_cmd": "cd /repo && cargo nextest run --workspace --no-fail-fast --offline",
   "source_commits": hooks,
   "add_only": True,
 },
 "engines": [
  {"name": "simcore", "path": "/verif/sim/src/core", "serves_properties": sorted(CLAIMED), "kind_free_text": "seeded case generation, worker processes, panic attribution, minimiser, replay, evidence, known findings"},
  {"name": "sched", "path": "/verif/sim/src/engines/sched.rs", "serves_properties": ["C07", "C12"], "kind_free_text": "shuttle coroutines + own seeded/replayable TraceScheduler; scheduling points from cfg-gated hooks"},
  {"name": "compile_determinism", "path": "/verif/sim/src/engines/compile.rs", "serves_properties": ["C07"], "kind_free_text": "concurrent compile jobs vs quiet-world reference digests; hash seeds via getrandom interposition"},
  {"name": "iftworld", "path": "/verif/sim/src/ift", "serves_properties": ["C18", "C19", "C02", "C06"], "kind_free_text": "IFT client/server/network/disk/decoder simulator with spec-level reference model"},
 ],
 "checks": checks,
 "not_applicable": na,
 "notes": "Technique family: deterministic simulation with fault injection. One integer (VERIF_SEED, default 1) decides every case; replays are traces under /verif/replays. See DESIGN.md.",
}
json.dump(m, open('/verif/MANIFEST.json', 'w'), indent=1)
print("claimed:", sorted(CLAIMED), "hooks:", hooks)
