//! Abstract IFT worlds: a full font cut into a base font, mapping-table versions and
//! patches; the byte-level realisation of each; and the spec-level reference model.

use super::encode::{self, EntryEnc, Format1Enc, Format2Enc, GlyphPatchSpec, TableOp};
use crate::core::rng::{mix, Rng};
use serde::{Deserialize, Serialize};
use std::collections::{BTreeMap, BTreeSet};

pub type Tag4 = [u8; 4];
pub const GLYF: Tag4 = *b"glyf";
pub const LOCA: Tag4 = *b"loca";
pub const GVAR: Tag4 = *b"gvar";
pub const IFT: Tag4 = *b"IFT ";
pub const IFTX: Tag4 = *b"IFTX";
pub const HEAD: Tag4 = *b"head";
pub const CFF: Tag4 = *b"CFF ";
pub const CFF2: Tag4 = *b"CFF2";

pub fn tag_str(t: &Tag4) -> String {
    String::from_utf8_lossy(t).to_string()
}

/// Subset definition in abstract form.
#[derive(Clone, Debug, Serialize, Deserialize, PartialEq)]
pub struct Def {
    pub cps: Vec<u32>,
    /// the codepoint set is the complement of `cps`
    pub inverted: bool,
    /// None = all features
    pub features: Option<Vec<Tag4>>,
    /// None = all design space; segments are (axis, start, end) in 16.16
    pub design: Option<Vec<(Tag4, i32, i32)>>,
}

impl Def {
    pub fn all() -> Def {
        Def { cps: vec![], inverted: true, features: None, design: None }
    }
    pub fn has_cp(&self, c: u32) -> bool {
        self.cps.binary_search(&c).is_ok() != self.inverted
    }
    pub fn union(&self, o: &Def) -> Def {
        let (cps, inverted) = match (self.inverted, o.inverted) {
            (false, false) => {
                let mut v = self.cps.clone();
                v.extend(&o.cps);
                v.sort_unstable();
                v.dedup();
                (v, false)
            }
            (true, true) => (self.cps.iter().copied().filter(|c| o.cps.binary_search(c).is_ok()).collect(), true),
            (true, false) => (self.cps.iter().copied().filter(|c| o.cps.binary_search(c).is_err()).collect(), true),
            (false, true) => (o.cps.iter().copied().filter(|c| self.cps.binary_search(c).is_err()).collect(), true),
        };
        let features = match (&self.features, &o.features) {
            (Some(a), Some(b)) => {
                let mut v = a.clone();
                v.extend(b.iter().copied());
                v.sort();
                v.dedup();
                Some(v)
            }
            _ => None,
        };
        let design = match (&self.design, &o.design) {
            (Some(a), Some(b)) => {
                let mut v = a.clone();
                v.extend(b.iter().copied());
                Some(v)
            }
            _ => None,
        };
        Def { cps, inverted, features, design }
    }
}

#[derive(Clone, Debug, Serialize, Deserialize, PartialEq)]
pub enum EntryId {
    Num(u32),
    Str(Vec<u8>),
}

#[derive(Clone, Debug, Serialize, Deserialize)]
pub struct Entry {
    pub cps: Vec<u32>,
    pub features: Vec<Tag4>,
    pub design: Vec<(Tag4, i32, i32)>,
    pub children: Vec<usize>,
    pub conjunctive: bool,
    pub ignored: bool,
    /// 1 = table keyed full invalidation, 2 = table keyed partial, 3 = glyph keyed
    pub format: u8,
    pub id: EntryId,
    /// index into World::patches
    pub patch: usize,
    // --- encoding choices (do not change meaning)
    pub cp_mode: u8,
    pub bias: u32,
    pub bf: u32,
    pub elide: bool,
    pub force_fds: bool,
    pub explicit_format: bool,
}

#[derive(Clone, Debug, Serialize, Deserialize)]
pub struct MapVersion {
    pub compat: [u8; 16],
    /// 1 or 2
    pub table_format: u8,
    pub template: String,
    pub default_format: u8,
    pub string_ids: bool,
    pub entries: Vec<Entry>,
    // format 1 only
    pub f1_first_mapped: u16,
    /// entry index (1-based; 0 = in base font) per glyph id >= first_mapped; entry index i refers to entries[i-1]
    pub f1_glyph_entries: Vec<u16>,
    /// feature records: (tag, [(first,last)]) each producing one entry after the glyph-map entries
    pub f1_features: Vec<(Tag4, Vec<(u16, u16)>)>,
    pub f1_max_glyph_entry: u16,
}

#[derive(Clone, Debug, Serialize, Deserialize)]
pub enum Op {
    /// replace mapping table in slot (0 = IFT, 1 = IFTX) by another version
    ReplaceMap { slot: usize, version: usize },
    DropMap { slot: usize },
    Replace { tag: Tag4, seed: u64, len: u32 },
    Diff { tag: Tag4, seed: u64, len: u32 },
    Drop { tag: Tag4 },
}

#[derive(Clone, Debug, Serialize, Deserialize)]
pub enum Patch {
    Glyph { gids: Vec<u32>, tables: Vec<Tag4>, wide: bool, alt: u8 },
    Table { ops: Vec<Op> },
}

#[derive(Clone, Debug, Serialize, Deserialize)]
pub struct World {
    pub n_glyphs: u32,
    pub loca_long: bool,
    pub has_gvar: bool,
    pub gvar_long: bool,
    pub data_seed: u64,
    /// glyphs whose data is already in the base font
    pub base_gids: Vec<u32>,
    /// a few glyphs get large data so that totals cross the short-offset limit
    pub big_gids: Vec<u32>,
    pub opaque: Vec<(Tag4, u64, u32)>,
    pub versions: Vec<MapVersion>,
    /// root mapping-table versions in the base font: IFT, IFTX
    pub roots: [Option<usize>; 2],
    pub patches: Vec<Patch>,
    /// outline carrier: 0 = glyf/loca (+gvar), 1 = CFF, 2 = CFF2
    #[serde(default)]
    pub carrier: u8,
    /// offSize of the charstrings INDEX in the base font (CFF carriers)
    #[serde(default)]
    pub cff_off_size0: u8,
    /// forces the outline data length of one glyph (used to land totals exactly on offset-size limits)
    #[serde(default)]
    pub len_adjust: Option<(u32, u32)>,
    /// patches carry streams of the simulated, dictionary-sensitive codec instead of stored brotli
    #[serde(default)]
    pub sim_codec: bool,
    /// the base font holds stale data for its glyphs (other bytes than the complete font; a 3-byte placeholder
    /// where the complete font's glyph is empty), so patches replace - and blank - data the font already has;
    /// in these worlds three in ten glyphs of the complete font are empty
    #[serde(default)]
    pub stale_base: bool,
    /// forces the gvar data length of one glyph so that the complete font's gvar data lands next to the limit
    /// of short (divided-by-two) offsets, padding included or not
    #[serde(default)]
    pub gvar_len_adjust: Option<(u32, u32)>,
}

/// Everything of a minimal CFF / CFF2 table that precedes the charstrings INDEX (which the IFT
/// specification requires to be last).
pub fn cff_prefix(carrier: u8) -> Vec<u8> {
    if carrier == 1 {
        let mut v = vec![1, 0, 4, 1];
        v.extend_from_slice(&[0, 1, 1, 1, 2, b'A']); // Name INDEX
        v.extend_from_slice(&[0, 1, 1, 1, 7, 0x1D, 0, 0, 0, 25, 0x11]); // Top DICT INDEX: CharStrings at 25
        v.extend_from_slice(&[0, 0]); // String INDEX
        v.extend_from_slice(&[0, 0]); // Global Subr INDEX
        debug_assert_eq!(v.len(), 25);
        v
    } else {
        let mut v = vec![2, 0, 5, 0, 6];
        v.extend_from_slice(&[0x1D, 0, 0, 0, 15, 0x11]); // Top DICT: CharStrings at 15
        v.extend_from_slice(&[0, 0, 0, 0]); // Global Subr INDEX (count u32 = 0)
        v
    }
}

pub fn cff_max_size(off_size: u8) -> usize {
    // offsets carry a bias of 1
    (1usize << (8 * off_size as usize)) - 2
}

pub fn cff_table_bytes(carrier: u8, glyphs: &[Vec<u8>], off_size: u8) -> Vec<u8> {
    let mut v = cff_prefix(carrier);
    if carrier == 1 {
        v.extend_from_slice(&(glyphs.len() as u16).to_be_bytes());
    } else {
        v.extend_from_slice(&(glyphs.len() as u32).to_be_bytes());
    }
    v.push(off_size);
    let mut off = 1usize;
    let push = |v: &mut Vec<u8>, o: usize| v.extend_from_slice(&(o as u32).to_be_bytes()[4 - off_size as usize..]);
    for g in glyphs {
        push(&mut v, off);
        off += g.len();
    }
    push(&mut v, off);
    for g in glyphs {
        v.extend_from_slice(g);
    }
    v
}

pub fn opaque_bytes(seed: u64, len: u32) -> Vec<u8> {
    Rng::new(seed).bytes(len as usize)
}

impl World {
    pub fn cp_of(&self, gid: u32) -> u32 {
        0x100 + gid
    }

    pub fn outline_tag(&self) -> Tag4 {
        match self.carrier {
            1 => CFF,
            2 => CFF2,
            _ => GLYF,
        }
    }

    /// Data of glyph `gid` in `table` in the complete font (alt != 0: a disagreeing variant).
    pub fn glyph_data(&self, table: &Tag4, gid: u32, alt: u8) -> Vec<u8> {
        let mut r = Rng::new(mix(mix(self.data_seed, crate::core::rng::fnv(table)), gid as u64));
        let forced = match (self.len_adjust, self.gvar_len_adjust) {
            (Some((g, l)), _) if g == gid && *table == self.outline_tag() => Some(l as usize),
            (_, Some((g, l))) if g == gid && *table == GVAR => Some(l as usize),
            _ => None,
        };
        let len = if let Some(l) = forced {
            l
        } else if self.big_gids.contains(&gid) {
            30_000 + r.below(40_000) as usize
        } else {
            match r.below(10) {
                0 => 0,
                1 | 2 if self.stale_base => 0,
                1 => 1,
                2 => 2 + r.below(4) as usize,
                3..=6 => 2 * (1 + r.below(30) as usize),
                7..=8 => 1 + 2 * r.below(40) as usize,
                _ => 100 + r.below(400) as usize,
            }
        };
        let mut v = r.bytes(len);
        if alt != 0 && !v.is_empty() {
            v[0] ^= alt;
        }
        // make sure data never ends in a zero byte so that padding is distinguishable
        if let Some(l) = v.last_mut() {
            if *l == 0 {
                *l = 0x5a;
            }
        }
        v
    }

    /// Data of glyph `gid` in `table` as the base font holds it.
    pub fn base_glyph_data(&self, table: &Tag4, gid: u32) -> Vec<u8> {
        let mut v = self.glyph_data(table, gid, 0);
        if self.stale_base {
            if v.is_empty() {
                v = vec![0x13, 0x37, 0x5a];
            } else {
                v[0] ^= 0x77;
                if v.len() == 1 && v[0] == 0 {
                    v[0] = 0x5a;
                }
            }
        }
        v
    }

    pub fn uri_of(&self, version: usize, entry: usize) -> String {
        let v = &self.versions[version];
        let e = &v.entries[entry];
        let idb = match &e.id {
            EntryId::Num(n) => encode::id_bytes_numeric(*n),
            EntryId::Str(s) => s.clone(),
        };
        encode::expand_uri(&v.template, &idb)
    }
}

// ------------------------------------------------------------------ model state

#[derive(Clone, Debug, PartialEq, Eq)]
pub struct MapState {
    pub version: usize,
    pub applied: BTreeSet<usize>,
}

#[derive(Clone, Debug, PartialEq, Eq)]
pub struct ModelFont {
    pub maps: [Option<MapState>; 2],
    pub glyf: Vec<Vec<u8>>,
    pub gvar: Option<Vec<Vec<u8>>>,
    pub gvar_long: bool,
    pub other: BTreeMap<Tag4, Vec<u8>>,
    /// offSize of the charstrings INDEX (CFF carriers; 0 otherwise)
    pub cff_off_size: u8,
}

#[derive(Clone, Debug, PartialEq, Eq, PartialOrd, Ord)]
pub struct Candidate {
    pub uri: String,
    pub format: u8,
    pub slot: usize,
    pub entry: usize,
}

fn ranges_overlap(a: (i32, i32), b: (i32, i32)) -> bool {
    a.0 <= b.1 && b.0 <= a.1
}

impl World {
    pub fn initial_model(&self) -> ModelFont {
        let mut glyf = vec![Vec::new(); self.n_glyphs as usize];
        let mut gvar = if self.has_gvar { Some(vec![Vec::new(); self.n_glyphs as usize]) } else { None };
        for g in &self.base_gids {
            glyf[*g as usize] = pad_even_if(&self.base_glyph_data(&self.outline_tag(), *g), self.carrier == 0 && !self.loca_long);
            if let Some(gv) = gvar.as_mut() {
                gv[*g as usize] = pad_even_if(&self.base_glyph_data(&GVAR, *g), !self.gvar_long);
            }
        }
        let mut other = BTreeMap::new();
        for (t, s, l) in &self.opaque {
            other.insert(*t, opaque_bytes(*s, *l));
        }
        ModelFont {
            maps: [self.roots[0].map(|v| MapState { version: v, applied: BTreeSet::new() }), self.roots[1].map(|v| MapState { version: v, applied: BTreeSet::new() })],
            glyf,
            gvar,
            gvar_long: self.gvar_long,
            other,
            cff_off_size: if self.carrier == 0 { 0 } else { self.cff_off_size0 },
        }
    }

    /// Does entry `idx` of `version` intersect `def` (IFT "check entry intersection")?
    fn entry_intersects(&self, v: &MapVersion, idx: usize, def: &Def, memo: &mut BTreeMap<usize, bool>) -> bool {
        if let Some(r) = memo.get(&idx) {
            return *r;
        }
        let e = &v.entries[idx];
        let mut ok = true;
        if !e.cps.is_empty() {
            ok = if def.inverted {
                // complement of a finite set: intersects unless every entry codepoint is excluded
                e.cps.iter().any(|c| def.has_cp(*c))
            } else {
                e.cps.iter().any(|c| def.cps.binary_search(c).is_ok())
            };
        }
        if ok && !e.features.is_empty() {
            ok = match &def.features {
                None => true,
                Some(fs) => e.features.iter().any(|f| fs.contains(f)),
            };
        }
        if ok && !e.design.is_empty() {
            ok = match &def.design {
                None => true,
                Some(ds) => e.design.iter().any(|(t, s, en)| ds.iter().any(|(t2, s2, e2)| t == t2 && ranges_overlap((*s, *en), (*s2, *e2)))),
            };
        }
        if ok && !e.children.is_empty() {
            ok = if e.conjunctive {
                e.children.iter().all(|c| self.entry_intersects(v, *c, def, memo))
            } else {
                e.children.iter().any(|c| self.entry_intersects(v, *c, def, memo))
            };
        }
        memo.insert(idx, ok);
        ok
    }

    /// Format-1 intersection: the set of entry indices (0-based into entries) that intersect.
    fn format1_intersections(&self, v: &MapVersion, def: &Def) -> BTreeSet<usize> {
        // glyph map: codepoint -> gid (cmap) -> entry index
        let mut hit: BTreeSet<u16> = BTreeSet::new();
        for gid in 1..self.n_glyphs {
            if !def.has_cp(self.cp_of(gid)) {
                continue;
            }
            let idx = if gid < v.f1_first_mapped as u32 { 0 } else { v.f1_glyph_entries[(gid - v.f1_first_mapped as u32) as usize] };
            if idx <= v.f1_max_glyph_entry {
                hit.insert(idx);
            }
        }
        let mut out: BTreeSet<usize> = BTreeSet::new();
        let mut next_entry = v.f1_max_glyph_entry as usize + 1;
        for (tag, recs) in &v.f1_features {
            let wanted = match &def.features {
                None => true,
                Some(fs) => fs.contains(tag),
            };
            for (first, last) in recs {
                if wanted && hit.range(*first..=*last).next().is_some() {
                    out.insert(next_entry - 1);
                }
                next_entry += 1;
            }
        }
        for h in hit {
            if h > 0 {
                out.insert(h as usize - 1);
            }
        }
        out
    }

    /// The patches offered for `def` in font state `m`: un-applied, un-ignored intersecting entries.
    pub fn candidates(&self, m: &ModelFont, def: &Def) -> Vec<Candidate> {
        let mut out = Vec::new();
        for slot in 0..2 {
            let Some(ms) = &m.maps[slot] else { continue };
            let v = &self.versions[ms.version];
            if v.table_format == 1 {
                for idx in self.format1_intersections(v, def) {
                    if ms.applied.contains(&idx) || v.entries[idx].ignored {
                        continue;
                    }
                    out.push(Candidate { uri: self.uri_of(ms.version, idx), format: v.entries[idx].format, slot, entry: idx });
                }
                continue;
            }
            let mut memo = BTreeMap::new();
            for idx in 0..v.entries.len() {
                if v.entries[idx].ignored || ms.applied.contains(&idx) {
                    continue;
                }
                if self.entry_intersects(v, idx, def, &mut memo) {
                    out.push(Candidate { uri: self.uri_of(ms.version, idx), format: v.entries[idx].format, slot, entry: idx });
                }
            }
        }
        out
    }

    /// Intersection size of an invalidating candidate, for the selection rule.
    pub fn intersection_size(&self, m: &ModelFont, c: &Candidate, def: &Def) -> (u64, u64, Vec<(Tag4, i64)>) {
        let ms = m.maps[c.slot].as_ref().unwrap();
        let v = &self.versions[ms.version];
        let e = &v.entries[c.entry];
        if v.table_format == 1 {
            let entry_of = |gid: u32| -> u16 { if gid < v.f1_first_mapped as u32 { 0 } else { v.f1_glyph_entries[(gid - v.f1_first_mapped as u32) as usize] } };
            let idx1 = c.entry as u16 + 1;
            if idx1 <= v.f1_max_glyph_entry {
                let n = (1..self.n_glyphs).filter(|g| entry_of(*g) == idx1 && def.has_cp(self.cp_of(*g))).count() as u64;
                return (n, 0, vec![]);
            }
            // feature-mapped entry: union of the intersections of the glyph-map entries in its range, plus the tag
            let mut k = v.f1_max_glyph_entry + 1;
            for (_tag, recs) in &v.f1_features {
                for (first, last) in recs {
                    if k == idx1 {
                        let n = (1..self.n_glyphs).filter(|g| { let e = entry_of(*g); e >= *first && e <= *last && e <= v.f1_max_glyph_entry && def.has_cp(self.cp_of(*g)) }).count() as u64;
                        return (n, 1, vec![]);
                    }
                    k += 1;
                }
            }
            return (0, 0, vec![]);
        }
        let cps = e.cps.iter().filter(|c| def.has_cp(**c)).count() as u64;
        let feats = match &def.features {
            None => e.features.len() as u64,
            Some(fs) => e.features.iter().filter(|f| fs.contains(f)).count() as u64,
        };
        // per axis: merged entry segments, intersected with the merged segments of the definition
        let merge = |segs: Vec<(i64, i64)>| -> Vec<(i64, i64)> {
            let mut v = segs;
            v.sort();
            let mut out: Vec<(i64, i64)> = Vec::new();
            for (a, b) in v {
                if let Some(l) = out.last_mut() {
                    // 16.16 values one epsilon apart are adjacent and merge
                    if a <= l.1 + 1 {
                        l.1 = l.1.max(b);
                        continue;
                    }
                }
                out.push((a, b));
            }
            out
        };
        let mut ds: BTreeMap<Tag4, i64> = BTreeMap::new();
        let mut tags: Vec<Tag4> = e.design.iter().map(|d| d.0).collect();
        tags.sort();
        tags.dedup();
        for t in tags {
            let mine = merge(e.design.iter().filter(|d| d.0 == t).map(|d| (d.1 as i64, d.2 as i64)).collect());
            match &def.design {
                None => {
                    ds.insert(t, mine.iter().map(|(a, b)| b - a).sum());
                }
                Some(dd) => {
                    let theirs = merge(dd.iter().filter(|d| d.0 == t).map(|d| (d.1 as i64, d.2 as i64)).collect());
                    let mut total = 0i64;
                    let mut any = false;
                    for (a, b) in &mine {
                        for (c, d) in &theirs {
                            if a <= d && c <= b {
                                any = true;
                                total += b.min(d) - a.max(c);
                            }
                        }
                    }
                    if any {
                        ds.insert(t, total);
                    }
                }
            }
        }
        (cps, feats, ds.into_iter().collect())
    }

    /// Applies the abstract patch behind `c` to the model. Returns Err(reason) when the
    /// specification says application must fail.
    pub fn model_apply_table(&self, m: &ModelFont, c: &Candidate) -> Result<ModelFont, String> {
        let ms = m.maps[c.slot].as_ref().ok_or("no map")?;
        let v = &self.versions[ms.version];
        let Patch::Table { ops } = &self.patches[v.entries[c.entry].patch] else { return Err("not a table patch".into()) };
        let mut n = m.clone();
        let mut seen: BTreeSet<Tag4> = BTreeSet::new();
        for op in ops {
            let tag = match op {
                Op::ReplaceMap { slot, .. } | Op::DropMap { slot } => {
                    if *slot == 0 {
                        IFT
                    } else {
                        IFTX
                    }
                }
                Op::Replace { tag, .. } | Op::Diff { tag, .. } | Op::Drop { tag } => *tag,
            };
            if !seen.insert(tag) {
                continue; // first patch for a table wins
            }
            match op {
                Op::ReplaceMap { slot, version } => n.maps[*slot] = Some(MapState { version: *version, applied: BTreeSet::new() }),
                Op::DropMap { slot } => n.maps[*slot] = None,
                Op::Replace { tag, seed, len } => {
                    n.other.insert(*tag, opaque_bytes(*seed, *len));
                }
                Op::Diff { tag, seed, len } => {
                    let Some(old) = m.other.get(tag) else {
                        return Err("diff against a table the font does not have".into());
                    };
                    let mut new = opaque_bytes(*seed, *len);
                    if self.sim_codec {
                        // simulated codec: the diff ends with a copy of the first bytes of its dictionary (the base table)
                        let k = diff_copy_len(*seed) as usize;
                        if k > old.len() {
                            return Err("diff copies more bytes than its base table has".into());
                        }
                        new.extend_from_slice(&old[..k]);
                    }
                    n.other.insert(*tag, new);
                }
                Op::Drop { tag } => {
                    n.other.remove(tag);
                }
            }
        }
        Ok(n)
    }

    /// Applies a set of glyph-keyed candidates. For glyphs supplied by several patches with
    /// different data, every supplied variant is acceptable: `alts` collects them.
    pub fn model_apply_glyph(&self, m: &ModelFont, cs: &[Candidate]) -> Result<(ModelFont, BTreeMap<(Tag4, u32), Vec<Vec<u8>>>), String> {
        let mut n = m.clone();
        let mut alts: BTreeMap<(Tag4, u32), Vec<Vec<u8>>> = BTreeMap::new();
        for c in cs {
            let ms = m.maps[c.slot].as_ref().ok_or("no map")?;
            let v = &self.versions[ms.version];
            let Patch::Glyph { gids, tables, alt, .. } = &self.patches[v.entries[c.entry].patch] else { return Err("not a glyph patch".into()) };
            if self.carrier != 0 && m.maps[0].is_none() && tables.contains(&self.outline_tag()) {
                // the client takes the charstrings offset from the 'IFT ' table only (calibrated)
                return Err("CFF charstrings offset is read from the IFT table, which this font no longer has".into());
            }
            for t in tables {
                for g in gids {
                    if *g >= self.n_glyphs {
                        return Err("glyph beyond the font's maximum".into());
                    }
                    let d = self.glyph_data(t, *g, *alt);
                    let e = alts.entry((*t, *g)).or_default();
                    if !e.contains(&d) {
                        e.push(d);
                    }
                }
            }
            n.maps[c.slot].as_mut().unwrap().applied.insert(c.entry);
        }
        for ((t, g), ds) in &alts {
            if *t == self.outline_tag() {
                n.glyf[*g as usize] = ds[0].clone();
            } else if *t == GVAR {
                if let Some(gv) = n.gvar.as_mut() {
                    gv[*g as usize] = ds[0].clone();
                } else {
                    return Err("gvar patch for a font without gvar".into());
                }
            }
        }
        Ok((n, alts))
    }
}

pub fn pad_even_if(d: &[u8], short: bool) -> Vec<u8> {
    let mut v = d.to_vec();
    if short && v.len() % 2 == 1 {
        v.push(0);
    }
    v
}

// ------------------------------------------------------------------ realisation in bytes

fn def_features_enc(fs: &[Tag4]) -> Vec<[u8; 4]> {
    fs.to_vec()
}

impl World {
    /// Mapping-table bytes for `version` with the given applied entries, plus per-entry bit positions.
    pub fn map_table_bytes(&self, version: usize, applied: &BTreeSet<usize>) -> Vec<u8> {
        let v = &self.versions[version];
        if v.table_format == 1 {
            let n_entries = v.entries.len() as u16;
            let mut features = Vec::new();
            let mut next = v.f1_max_glyph_entry + 1;
            for (tag, recs) in &v.f1_features {
                features.push((*tag, next, recs.clone()));
                next += recs.len() as u16;
            }
            let enc = Format1Enc {
                compat: v.compat,
                patch_format: v.default_format,
                template: v.template.clone(),
                glyph_count: self.n_glyphs,
                max_entry_index: n_entries,
                max_glyph_map_entry_index: v.f1_max_glyph_entry,
                first_mapped_glyph: v.f1_first_mapped,
                glyph_entries: v.f1_glyph_entries.clone(),
                features,
                applied: applied.iter().map(|i| *i as u16 + 1).collect(),
                cff_offset: if self.carrier == 1 { Some(cff_prefix(1).len() as u32) } else { None },
                cff2_offset: if self.carrier == 2 { Some(cff_prefix(2).len() as u32) } else { None },
            };
            return encode::format1_table(&enc).0;
        }
        let mut entries = Vec::new();
        let mut last_id: u32 = 0;
        let mut last_str: Vec<u8> = Vec::new();
        for (i, e) in v.entries.iter().enumerate() {
            let (id_delta, id_string) = match &e.id {
                EntryId::Num(n) => {
                    let delta = *n as i64 - (last_id as i64 + 1);
                    last_id = *n;
                    (if delta != 0 { Some(delta as i32) } else { None }, None)
                }
                EntryId::Str(s) => {
                    let r = if *s == last_str { None } else { Some(s.clone()) };
                    last_str = s.clone();
                    (None, r)
                }
            };
            entries.push(EntryEnc {
                codepoints: e.cps.clone(),
                cp_mode: if e.cps.is_empty() { 0 } else { e.cp_mode },
                bias: e.bias,
                bf: e.bf,
                elide: e.elide,
                features: def_features_enc(&e.features),
                design: e.design.clone(),
                force_fds_block: e.force_fds,
                children: e.children.iter().map(|c| *c as u32).collect(),
                conjunctive: e.conjunctive,
                id_delta,
                id_string,
                format: if e.explicit_format || e.format != v.default_format { Some(e.format) } else { None },
                ignored: e.ignored || applied.contains(&i),
            });
        }
        let enc = Format2Enc { compat: v.compat, default_format: v.default_format, template: v.template.clone(), entries, string_ids: v.string_ids, cff_offset: if self.carrier == 1 { Some(cff_prefix(1).len() as u32) } else { None }, cff2_offset: if self.carrier == 2 { Some(cff_prefix(2).len() as u32) } else { None } };
        encode::format2_table(&enc).0
    }

    /// Patch bytes behind an entry (as the server stores them).
    pub fn patch_bytes(&self, version: usize, entry: usize) -> Vec<u8> {
        let v = &self.versions[version];
        let e = &v.entries[entry];
        match &self.patches[e.patch] {
            Patch::Glyph { gids, tables, wide, alt } => {
                let data = tables.iter().map(|t| gids.iter().map(|g| self.glyph_data(t, *g, *alt)).collect()).collect();
                encode::glyph_keyed_patch(&v.compat, &GlyphPatchSpec { wide: *wide, gids: gids.clone(), tables: tables.clone(), data }, None, self.sim_codec)
            }
            Patch::Table { ops } => {
                let ops: Vec<TableOp> = ops
                    .iter()
                    .map(|op| match op {
                        Op::ReplaceMap { slot, version } => TableOp { tag: if *slot == 0 { IFT } else { IFTX }, flags: 1, data: self.map_table_bytes(*version, &BTreeSet::new()), max_len: None, copy: 0 },
                        Op::DropMap { slot } => TableOp { tag: if *slot == 0 { IFT } else { IFTX }, flags: 2, data: vec![], max_len: None, copy: 0 },
                        Op::Replace { tag, seed, len } => TableOp { tag: *tag, flags: 1, data: opaque_bytes(*seed, *len), max_len: None, copy: 0 },
                        Op::Diff { tag, seed, len } => TableOp { tag: *tag, flags: 0, data: opaque_bytes(*seed, *len), max_len: None, copy: diff_copy_len(*seed) },
                        Op::Drop { tag } => TableOp { tag: *tag, flags: 2, data: vec![], max_len: None, copy: 0 },
                    })
                    .collect();
                encode::table_keyed_patch(&v.compat, &ops, self.sim_codec)
            }
        }
    }

    /// The base font file.
    pub fn base_font(&self) -> Vec<u8> {
        realise(self, &self.initial_model())
    }
}

/// Number of dictionary bytes a simulated-codec diff copies (a function of the patch, fixed at "encode time").
pub fn diff_copy_len(seed: u64) -> u32 {
    ((seed >> 11) % 7) as u32
}

pub fn loca_glyf_bytes(glyphs: &[Vec<u8>], long: bool) -> (Vec<u8>, Vec<u8>) {
    let mut glyf = Vec::new();
    let mut loca = Vec::new();
    for g in glyphs {
        if long {
            loca.extend_from_slice(&(glyf.len() as u32).to_be_bytes());
        } else {
            loca.extend_from_slice(&((glyf.len() / 2) as u16).to_be_bytes());
        }
        glyf.extend_from_slice(g);
        if !long && glyf.len() % 2 == 1 {
            glyf.push(0);
        }
    }
    if long {
        loca.extend_from_slice(&(glyf.len() as u32).to_be_bytes());
    } else {
        loca.extend_from_slice(&((glyf.len() / 2) as u16).to_be_bytes());
    }
    (loca, glyf)
}

pub fn gvar_bytes(glyphs: &[Vec<u8>], long: bool) -> Vec<u8> {
    // header(20) + offsets + data; no shared tuples; axis count 1
    let n = glyphs.len();
    let mut w = encode::W::new();
    w.u16(1);
    w.u16(0);
    w.u16(1); // axisCount
    w.u16(0); // sharedTupleCount
    let off_w = if long { 4 } else { 2 };
    let data_start = 20 + (n + 1) * off_w;
    w.u32(data_start as u32); // sharedTuplesOffset
    w.u16(n as u16);
    w.u16(if long { 1 } else { 0 });
    w.u32(data_start as u32);
    let mut data = Vec::new();
    for g in glyphs {
        if long {
            w.u32(data.len() as u32);
        } else {
            w.u16((data.len() / 2) as u16);
        }
        data.extend_from_slice(g);
        if !long && data.len() % 2 == 1 {
            data.push(0);
        }
    }
    if long {
        w.u32(data.len() as u32);
    } else {
        w.u16((data.len() / 2) as u16);
    }
    w.bytes(&data);
    w.0
}

/// Builds the font file the model state denotes (used for the base font and for
/// "stale"/"torn" images; the client's outputs are compared table-wise, not file-wise).
pub fn realise(w: &World, m: &ModelFont) -> Vec<u8> {
    use write_fonts::tables::{head::Head, maxp::Maxp};
    use write_fonts::types::{GlyphId, Tag};
    use write_fonts::FontBuilder;
    let mut b = FontBuilder::new();
    let head = Head { index_to_loc_format: if w.loca_long { 1 } else { 0 }, units_per_em: 1000, ..Default::default() };
    b.add_table(&head).expect("head");
    let maxp = Maxp { num_glyphs: w.n_glyphs as u16, ..Default::default() };
    b.add_table(&maxp).expect("maxp");
    let maps: Vec<(char, GlyphId)> = (1..w.n_glyphs).filter_map(|g| char::from_u32(w.cp_of(g)).map(|c| (c, GlyphId::new(g)))).collect();
    let cmap = write_fonts::tables::cmap::Cmap::from_mappings(maps).expect("cmap");
    b.add_table(&cmap).expect("cmap");
    if w.carrier == 0 {
        let (loca, glyf) = loca_glyf_bytes(&m.glyf, w.loca_long);
        b.add_raw(Tag::new(&LOCA), loca);
        b.add_raw(Tag::new(&GLYF), glyf);
    } else {
        b.add_raw(Tag::new(&w.outline_tag()), cff_table_bytes(w.carrier, &m.glyf, m.cff_off_size));
    }
    if let Some(gv) = &m.gvar {
        b.add_raw(Tag::new(&GVAR), gvar_bytes(gv, m.gvar_long));
    }
    for slot in 0..2 {
        if let Some(ms) = &m.maps[slot] {
            b.add_raw(Tag::new(if slot == 0 { &IFT } else { &IFTX }), w.map_table_bytes(ms.version, &ms.applied));
        }
    }
    for (t, d) in &m.other {
        b.add_raw(Tag::new(t), d.clone());
    }
    b.build()
}

// ------------------------------------------------------------------ generation

const FEATS: [Tag4; 5] = [*b"liga", *b"smcp", *b"c2sc", *b"dlig", *b"kern"];
const AXES: [Tag4; 3] = [*b"wght", *b"wdth", *b"opsz"];

fn gen_compat(rng: &mut Rng) -> [u8; 16] {
    let mut c = [0u8; 16];
    c.copy_from_slice(&rng.bytes(16));
    c
}

fn gen_cps(rng: &mut Rng, w_glyphs: u32) -> Vec<u32> {
    let mut v = Vec::new();
    let k = match rng.below(8) {
        0 => 0,
        1..=3 => 1 + rng.below(3),
        4..=6 => 2 + rng.below(8),
        _ => w_glyphs as u64 / 2,
    };
    for _ in 0..k {
        if rng.chance(1, 12) {
            // a codepoint outside the font's cmap, sometimes far away (exercises bias / tall trees)
            v.push(*rng.pick(&[0x41u32, 0x2000, 0xFFFF, 0x10000, 0x1F600, 0x10FFFF]));
        } else {
            v.push(0x100 + rng.below(w_glyphs as u64) as u32);
        }
    }
    v.sort_unstable();
    v.dedup();
    v
}

fn gen_design(rng: &mut Rng) -> Vec<(Tag4, i32, i32)> {
    let mut v = Vec::new();
    for _ in 0..(1 + rng.below(2)) {
        let t = *rng.pick(&AXES);
        let grid = [100i32, 200, 300, 400, 500, 700, 900];
        let a = *rng.pick(&grid);
        let b = *rng.pick(&grid);
        let (s, e) = (a.min(b), a.max(b));
        v.push((t, s << 16, e << 16));
    }
    v
}

pub fn gen_def(rng: &mut Rng, n_glyphs: u32) -> Def {
    let mut cps = gen_cps(rng, n_glyphs);
    let inverted = rng.chance(1, 10);
    if !inverted && cps.is_empty() && rng.chance(2, 3) {
        cps.push(0x100 + rng.below(n_glyphs as u64) as u32);
    }
    let features = if rng.chance(1, 8) {
        None
    } else {
        let mut f: Vec<Tag4> = (0..rng.below(3)).map(|_| *rng.pick(&FEATS)).collect();
        f.sort();
        f.dedup();
        Some(f)
    };
    let design = if rng.chance(1, 4) {
        None
    } else if rng.chance(1, 2) {
        Some(vec![])
    } else {
        Some(gen_design(rng))
    };
    Def { cps, inverted, features, design }
}

struct Gen<'a> {
    rng: &'a mut Rng,
    n_glyphs: u32,
    versions: Vec<MapVersion>,
    patches: Vec<Patch>,
    opaque_tags: Vec<Tag4>,
    next_tpl: u32,
}

impl Gen<'_> {
    fn glyph_patch(&mut self, has_gvar: bool, cps: &[u32]) -> usize {
        // glyphs follow the entry's codepoints (as a real encoder would do) plus a few extra
        let mut gids: Vec<u32> = cps.iter().filter(|c| **c >= 0x100 && **c < 0x100 + self.n_glyphs).map(|c| c - 0x100).collect();
        for _ in 0..self.rng.below(3) {
            gids.push(self.rng.below(self.n_glyphs as u64) as u32);
        }
        if gids.is_empty() {
            gids.push(self.rng.below(self.n_glyphs as u64) as u32);
        }
        gids.sort_unstable();
        gids.dedup();
        let mut tables = vec![GLYF];
        if has_gvar {
            match self.rng.below(3) {
                0 => {}
                1 => tables.push(GVAR),
                _ => tables = vec![GVAR],
            }
        }
        tables.sort();
        self.patches.push(Patch::Glyph { gids, tables, wide: self.rng.chance(1, 4), alt: 0 });
        self.patches.len() - 1
    }

    fn version(&mut self, depth: u32, slot: usize, has_gvar: bool, allow_full: bool) -> usize {
        let rng = &mut *self.rng;
        let table_format = if rng.chance(1, 5) { 1 } else { 2 };
        let tpl_id = self.next_tpl;
        self.next_tpl += 1;
        let template = match rng.below(4) {
            0 => format!("p{tpl_id}/{{id}}"),
            1 => format!("q{tpl_id}/{{d1}}/{{d2}}/{{id}}.ift"),
            2 => format!("r{tpl_id}-{{id64}}"),
            _ => format!("s{tpl_id}_{{d3}}{{d4}}_{{id}}"),
        };
        let compat = gen_compat(rng);
        let idx = self.versions.len();
        // reserve slot so that successors get higher indices
        self.versions.push(MapVersion {
            compat,
            table_format,
            template: template.clone(),
            default_format: 3,
            string_ids: false,
            entries: vec![],
            f1_first_mapped: 0,
            f1_glyph_entries: vec![],
            f1_features: vec![],
            f1_max_glyph_entry: 0,
        });
        if table_format == 1 {
            // glyph map over all glyphs; entries are uniform format
            let n_glyph_entries = 1 + self.rng.below(5) as u16;
            let first_mapped = self.rng.below(3) as u16;
            let fmt = if depth < 2 && self.rng.chance(1, 3) { 2 } else { 3 };
            let mut glyph_entries = Vec::new();
            for _g in first_mapped as u32..self.n_glyphs {
                glyph_entries.push(self.rng.below(n_glyph_entries as u64 + 1) as u16);
            }
            let mut features: Vec<(Tag4, Vec<(u16, u16)>)> = Vec::new();
            if self.rng.chance(1, 2) {
                let mut tags: Vec<Tag4> = FEATS.to_vec();
                self.rng.shuffle(&mut tags);
                let mut tags: Vec<Tag4> = tags.into_iter().take(1 + self.rng.below(2) as usize).collect();
                tags.sort();
                for t in tags {
                    let mut recs = Vec::new();
                    for _ in 0..(1 + self.rng.below(2)) {
                        let a = self.rng.below(n_glyph_entries as u64 + 1) as u16;
                        let b = self.rng.below(n_glyph_entries as u64 + 1) as u16;
                        recs.push((a.min(b), a.max(b)));
                    }
                    features.push((t, recs));
                }
            }
            let total = n_glyph_entries as usize + features.iter().map(|f| f.1.len()).sum::<usize>();
            let mut entries = Vec::new();
            for i in 0..total {
                let gids: Vec<u32> = if i < n_glyph_entries as usize {
                    (first_mapped as u32..self.n_glyphs).filter(|g| glyph_entries[(*g - first_mapped as u32) as usize] as usize == i + 1).collect()
                } else {
                    vec![]
                };
                let cps: Vec<u32> = gids.iter().map(|g| 0x100 + g).collect();
                let patch = if fmt == 3 { self.glyph_patch(has_gvar, &cps) } else { self.table_patch(depth, slot, has_gvar, false) };
                entries.push(Entry {
                    cps: vec![],
                    features: vec![],
                    design: vec![],
                    children: vec![],
                    conjunctive: false,
                    ignored: false,
                    format: fmt,
                    id: EntryId::Num(i as u32 + 1),
                    patch,
                    cp_mode: 0,
                    bias: 0,
                    bf: 4,
                    elide: false,
                    force_fds: false,
                    explicit_format: false,
                });
            }
            let v = &mut self.versions[idx];
            v.default_format = fmt;
            v.f1_first_mapped = first_mapped;
            v.f1_glyph_entries = glyph_entries;
            v.f1_features = features;
            v.f1_max_glyph_entry = n_glyph_entries;
            v.entries = entries;
            return idx;
        }
        let string_ids = self.rng.chance(1, 6);
        let n_entries = 1 + self.rng.below(if depth == 0 { 10 } else { 4 }) as usize;
        let default_format = *self.rng.pick(&[3u8, 3, 3, 2]);
        let mut entries: Vec<Entry> = Vec::new();
        let mut next_id: u32 = 0;
        let mut prev_id: u32 = 0;
        let mut used_ids: BTreeSet<u32> = BTreeSet::new();
        for i in 0..n_entries {
            let kind = self.rng.below(20);
            // an entry may repeat the previous entry's id: both then name the same (glyph-keyed) patch
            let dup_prev = i > 0 && entries[i - 1].format == 3 && self.rng.chance(1, 12);
            let format = if dup_prev || depth >= 2 {
                3
            } else if kind == 0 && allow_full {
                1
            } else if kind <= 3 {
                2
            } else {
                3
            };
            let mut cps = gen_cps(self.rng, self.n_glyphs);
            let mut features: Vec<Tag4> = if self.rng.chance(1, 4) { (0..1 + self.rng.below(2)).map(|_| *self.rng.pick(&FEATS)).collect() } else { vec![] };
            features.sort();
            features.dedup();
            let design = if self.rng.chance(if format == 3 { 1 } else { 3 }, 5) { gen_design(self.rng) } else { vec![] };
            let mut children = Vec::new();
            let mut conjunctive = false;
            if i > 0 && self.rng.chance(1, 5) {
                for _ in 0..(1 + self.rng.below(3)) {
                    children.push(self.rng.usize_below(i));
                }
                children.sort();
                children.dedup();
                conjunctive = self.rng.chance(1, 2);
                if self.rng.chance(1, 2) {
                    cps.clear();
                }
            }
            // ids: ascending with occasional jumps; sometimes going back (negative delta)
            let id = if dup_prev {
                entries[i - 1].id.clone()
            } else if string_ids {
                let mut sid = format!("e{}", i).into_bytes();
                // ids are opaque bytes: some start with zero bytes (which numeric ids drop and string ids keep)
                if self.rng.chance(1, 6) {
                    let zeros = 1 + self.rng.below(2) as usize;
                    for _ in 0..zeros {
                        sid.insert(0, 0);
                    }
                }
                if self.rng.chance(1, 3) {
                    let extra = 1 + self.rng.below(3) as usize;
                    let bytes = self.rng.bytes(extra);
                    sid.push(b'.');
                    sid.extend_from_slice(&bytes);
                }
                EntryId::Str(sid)
            } else {
                let back = !used_ids.is_empty() && self.rng.chance(1, 8);
                let mut chosen = None;
                if back && next_id > 2 {
                    // negative delta: an unused id below the previous one
                    for _ in 0..4 {
                        let cand = 1 + self.rng.below(next_id as u64 - 1) as u32;
                        if !used_ids.contains(&cand) {
                            chosen = Some(cand);
                            break;
                        }
                    }
                }
                let idv = match chosen {
                    Some(c) => c,
                    None => {
                        let jump = match self.rng.below(8) {
                            0 => 1 + self.rng.below(40) as u32,
                            1 => 300 + self.rng.below(70000) as u32,
                            _ => 0,
                        };
                        let mut c = prev_id + 1 + jump;
                        while used_ids.contains(&c) {
                            c += 1;
                        }
                        c
                    }
                };
                used_ids.insert(idv);
                prev_id = idv;
                next_id = next_id.max(idv);
                EntryId::Num(idv)
            };
            let (cp_mode, bias) = if cps.is_empty() {
                (0, 0)
            } else {
                let lo = cps[0];
                match self.rng.below(3) {
                    0 => (1u8, 0u32),
                    1 => (2, lo.min(0xFFFF).saturating_sub(self.rng.below(4) as u32)),
                    _ => (3, lo.saturating_sub(self.rng.below(4) as u32)),
                }
            };
            let max_rel = cps.last().map(|c| c - if cp_mode == 1 { 0 } else { bias }).unwrap_or(0);
            let mut bf = *self.rng.pick(&[2u32, 4, 8, 32]);
            if bf == 2 && max_rel >= (1 << 31) {
                bf = 4;
            }
            let patch = if dup_prev {
                entries[i - 1].patch
            } else if format == 3 {
                self.glyph_patch(has_gvar, &cps)
            } else {
                self.table_patch(depth, slot, has_gvar, format == 1)
            };
            let ignored = self.rng.chance(1, 12);
            entries.push(Entry {
                cps,
                features,
                design,
                children,
                conjunctive,
                ignored,
                format,
                id,
                patch,
                cp_mode,
                bias,
                bf,
                elide: self.rng.chance(1, 2),
                force_fds: self.rng.chance(1, 10),
                explicit_format: self.rng.chance(1, 6),
            });
        }
        let v = &mut self.versions[idx];
        v.default_format = default_format;
        v.string_ids = string_ids;
        v.entries = entries;
        idx
    }

    fn table_patch(&mut self, depth: u32, slot: usize, has_gvar: bool, full: bool) -> usize {
        let mut ops = Vec::new();
        // an invalidating patch replaces (or drops) the mapping table it came from
        if self.rng.chance(1, 6) {
            ops.push(Op::DropMap { slot });
        } else {
            let succ = self.version(depth + 1, slot, has_gvar, false);
            ops.push(Op::ReplaceMap { slot, version: succ });
        }
        if full {
            // full invalidation also replaces or drops the other mapping table
            let other = 1 - slot;
            if self.rng.chance(1, 2) {
                ops.push(Op::DropMap { slot: other });
            } else {
                let succ = self.version(depth + 1, other, has_gvar, false);
                ops.push(Op::ReplaceMap { slot: other, version: succ });
            }
        }
        for _ in 0..self.rng.below(3) {
            let tag = *self.rng.pick(&self.opaque_tags);
            let len = *self.rng.pick(&[0u32, 1, 7, 64, 300, 70_000]);
            let seed = self.rng.next_u64();
            ops.push(match self.rng.below(4) {
                0 => Op::Drop { tag },
                1 => Op::Diff { tag, seed, len },
                _ => Op::Replace { tag, seed, len },
            });
        }
        if self.rng.chance(1, 8) {
            // a new table
            ops.push(Op::Replace { tag: *b"newt", seed: self.rng.next_u64(), len: 12 });
        }
        self.rng.shuffle(&mut ops);
        self.patches.push(Patch::Table { ops });
        self.patches.len() - 1
    }
}

pub fn gen_world(rng: &mut Rng) -> World {
    let n_glyphs = 4 + rng.below(45) as u32;
    let loca_long = rng.chance(1, 2);
    let carrier = match rng.below(8) {
        0 | 1 => 1u8,
        2 => 2,
        _ => 0,
    };
    let off_size_pick = *rng.pick(&[1u8, 1, 1, 2, 3, 4]);
    let threshold_mode = rng.chance(1, 3);
    let threshold_delta = *rng.pick(&[-1i64, 0, 0, 1, 1, 2]);
    let has_gvar = carrier == 0 && rng.chance(1, 2);
    let gvar_long = rng.chance(1, 3);
    let mut base_gids: Vec<u32> = vec![0];
    for g in 1..n_glyphs {
        if rng.chance(1, 6) {
            base_gids.push(g);
        }
    }
    let big_gids: Vec<u32> = if rng.chance(1, 10) { (0..1 + rng.below(3)).map(|_| rng.below(n_glyphs as u64) as u32).collect() } else { vec![] };
    let opaque_tags: Vec<Tag4> = vec![*b"tab1", *b"tab2", *b"zzzz"];
    let opaque: Vec<(Tag4, u64, u32)> = opaque_tags.iter().take(1 + rng.below(3) as usize).map(|t| (*t, rng.next_u64(), *rng.pick(&[0u32, 5, 8, 33, 1000]))).collect();
    let data_seed = rng.next_u64();
    let mut g = Gen { rng, n_glyphs, versions: vec![], patches: vec![], opaque_tags, next_tpl: 0 };
    let two = g.rng.chance(1, 2);
    let r0 = g.version(0, 0, has_gvar, two);
    let r1 = if two { Some(g.version(0, 1, has_gvar, true)) } else { None };
    let (versions, patches) = (g.versions, g.patches);
    let mut w = World { n_glyphs, loca_long, has_gvar, gvar_long, data_seed, base_gids, big_gids, opaque, versions, roots: [Some(r0), r1], patches, carrier, cff_off_size0: 1, len_adjust: None, sim_codec: false, stale_base: false, gvar_len_adjust: None };
    if w.carrier != 0 {
        let tag = w.outline_tag();
        for p in w.patches.iter_mut() {
            if let Patch::Glyph { tables, .. } = p {
                *tables = vec![tag];
            }
        }
        let total: usize = w.base_gids.iter().map(|g| w.glyph_data(&tag, *g, 0).len()).sum();
        let mut need = 1u8;
        while cff_max_size(need) < total {
            need += 1;
        }
        w.cff_off_size0 = need.max(off_size_pick);
        if threshold_mode {
            // one wildcard glyph-keyed entry whose patch supplies every glyph missing from the base, sized so
            // that the final charstrings total lands exactly on, one below or one above an offset-size limit
            let missing: Vec<u32> = (0..w.n_glyphs).filter(|g| !w.base_gids.contains(g)).collect();
            if let (Some(r0), Some(&adj)) = (w.roots[0], missing.last()) {
                if w.versions[r0].table_format == 2 && !w.versions[r0].entries.is_empty() {
                    let mut e = w.versions[r0].entries[0].clone();
                    e.cps.clear();
                    e.cp_mode = 0;
                    e.features.clear();
                    e.design.clear();
                    e.children.clear();
                    e.ignored = false;
                    e.format = 3;
                    w.patches.push(Patch::Glyph { gids: missing.clone(), tables: vec![tag], wide: false, alt: 0 });
                    e.patch = w.patches.len() - 1;
                    w.versions[r0].entries = vec![e];
                    w.versions[r0].default_format = 3;
                    w.roots[1] = None;
                    let others: usize = (0..w.n_glyphs).filter(|g| *g != adj).map(|g| w.glyph_data(&tag, g, 0).len()).sum();
                    let limits = [254usize, 65534];
                    if let Some(limit) = limits.iter().find(|l| **l + 1 >= others + 1) {
                        let target = (*limit as i64 + threshold_delta).max(others as i64 + 1) as usize;
                        w.len_adjust = Some((adj, (target - others) as u32));
                        w.cff_off_size0 = if *limit == 254 { 1 } else { w.cff_off_size0.min(2).max(need) };
                    }
                }
            }
        }
    }
    if w.carrier == 0 && w.has_gvar && rng.chance(1, 12) {
        // gvar at the widening threshold: one wildcard glyph-keyed entry whose patch supplies the gvar data of every
        // glyph missing from the base, sized so that the complete table's data is within a few bytes of 2 * 65535 -
        // below it without the pad bytes of odd-length data and above it with them, or just on either side
        let delta = *rng.pick(&[-9i64, -6, -4, -3, -2, -1, 0, 1, 2]);
        let missing: Vec<u32> = (0..w.n_glyphs).filter(|g| !w.base_gids.contains(g)).collect();
        if let (Some(r0), Some(&adj)) = (w.roots[0], missing.last()) {
            let others: usize = (0..w.n_glyphs).filter(|g| *g != adj).map(|g| w.glyph_data(&GVAR, g, 0).len()).sum();
            if w.versions[r0].table_format == 2 && !w.versions[r0].entries.is_empty() && others + 16 < 131070 {
                let mut e = w.versions[r0].entries[0].clone();
                e.cps.clear();
                e.cp_mode = 0;
                e.features.clear();
                e.design.clear();
                e.children.clear();
                e.ignored = false;
                e.format = 3;
                w.patches.push(Patch::Glyph { gids: missing.clone(), tables: vec![GVAR], wide: false, alt: 0 });
                e.patch = w.patches.len() - 1;
                w.versions[r0].entries = vec![e];
                w.versions[r0].default_format = 3;
                w.roots[1] = None;
                w.gvar_long = false;
                w.gvar_len_adjust = Some((adj, (131070i64 + delta - others as i64) as u32));
            }
        }
    }
    // the base font itself must be well formed: short offsets only if the base data fits them
    w.stale_base = w.carrier == 0 && w.len_adjust.is_none() && rng.chance(1, 4);
    let base_total = |w: &World, t: &Tag4| -> usize { w.base_gids.iter().map(|g| { let l = w.base_glyph_data(t, *g).len(); l + l % 2 }).sum() };
    if !w.loca_long && base_total(&w, &GLYF) > 0xFFFF * 2 {
        w.loca_long = true;
    }
    if w.has_gvar && !w.gvar_long && base_total(&w, &GVAR) > 0xFFFF * 2 {
        w.gvar_long = true;
    }
    w.sim_codec = rng.chance(1, 3);
    w
}
