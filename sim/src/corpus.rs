//! The repository's own test fonts, read from /repo's working tree at run time: first the
//! font-test-data corpus (small, purpose-built), then the real-world source fonts of klippa's
//! test data (real hinting programs, large layout tables, bitmap and colour tables). The second
//! group is appended so that indices of the first never change.

use std::sync::OnceLock;

pub struct CorpusFont {
    pub name: String,
    pub data: &'static [u8],
    /// from klippa/test-data/fonts (real-world fonts) rather than font-test-data
    pub extended: bool,
}

static CORPUS: OnceLock<Vec<CorpusFont>> = OnceLock::new();

pub fn corpus() -> &'static [CorpusFont] {
    CORPUS.get_or_init(|| {
        let mut v = Vec::new();
        let root = crate::core::repo_root();
        for (dir, extended) in [(format!("{root}/font-test-data/test_data/ttf"), false), (format!("{root}/font-test-data/test_data/ttc"), false), (format!("{root}/klippa/test-data/fonts"), true)] {
            let mut names: Vec<_> = std::fs::read_dir(dir)
                .map(|rd| rd.filter_map(|e| e.ok()).map(|e| e.path()).collect())
                .unwrap_or_default();
            names.sort();
            for p in names {
                let ext = p.extension().and_then(|e| e.to_str()).unwrap_or("");
                if !matches!(ext, "ttf" | "otf" | "ttc") {
                    continue;
                }
                if let Ok(bytes) = std::fs::read(&p) {
                    let name = p.file_name().unwrap().to_string_lossy().to_string();
                    if v.iter().any(|f: &CorpusFont| f.name == name) {
                        continue;
                    }
                    v.push(CorpusFont { name, data: Box::leak(bytes.into_boxed_slice()), extended });
                }
            }
        }
        v
    })
}

pub fn by_name(name: &str) -> Option<&'static CorpusFont> {
    corpus().iter().find(|f| f.name == name)
}

pub fn index_of(name: &str) -> Option<usize> {
    corpus().iter().position(|f| f.name == name)
}
