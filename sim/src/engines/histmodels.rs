//! Operation histories against trivial reference models (C14 integer sets and sparse-bit-set
//! codec; C06 font builder). No schedule or clock exists for these objects: the history is the
//! quantifier; the codec additionally receives stream faults.

use crate::core::rng::{fnv, Digest, Rng};
use crate::core::{drop_chunks, Engine, Stats, Verdict, Violation};
use crate::ift::encode;
use read_fonts::collections::int_set::{Domain, InDomain};
use read_fonts::collections::{IntSet, RangeSet};
use serde::{Deserialize, Serialize};
use std::collections::hash_map::DefaultHasher;
use std::hash::{Hash, Hasher};
use std::ops::RangeInclusive;

// ------------------------------------------------------------------ interval-list model

type Iv = Vec<(u32, u32)>;

fn norm(mut v: Iv) -> Iv {
    v.sort_unstable();
    let mut out: Iv = Vec::with_capacity(v.len());
    for (a, b) in v {
        if let Some(l) = out.last_mut() {
            if a as u64 <= l.1 as u64 + 1 {
                l.1 = l.1.max(b);
                continue;
            }
        }
        out.push((a, b));
    }
    out
}

fn iv_union(a: &Iv, b: &Iv) -> Iv {
    let mut v = a.clone();
    v.extend_from_slice(b);
    norm(v)
}

fn iv_intersect(a: &Iv, b: &Iv) -> Iv {
    let mut out = Vec::new();
    let (mut i, mut j) = (0, 0);
    while i < a.len() && j < b.len() {
        let lo = a[i].0.max(b[j].0);
        let hi = a[i].1.min(b[j].1);
        if lo <= hi {
            out.push((lo, hi));
        }
        if a[i].1 < b[j].1 {
            i += 1;
        } else {
            j += 1;
        }
    }
    out
}

/// complement within the full u32 line
fn iv_complement(a: &Iv) -> Iv {
    let mut out = Vec::new();
    let mut next: u64 = 0;
    for (s, e) in a {
        if (*s as u64) > next {
            out.push((next as u32, s - 1));
        }
        next = *e as u64 + 1;
    }
    if next <= u32::MAX as u64 {
        out.push((next as u32, u32::MAX));
    }
    out
}

fn iv_subtract(a: &Iv, b: &Iv) -> Iv {
    iv_intersect(a, &iv_complement(b))
}

fn iv_len(a: &Iv) -> u64 {
    a.iter().map(|(s, e)| (*e as u64) - (*s as u64) + 1).sum()
}

fn iv_contains(a: &Iv, v: u32) -> bool {
    a.binary_search_by(|(s, e)| if v < *s { std::cmp::Ordering::Greater } else if v > *e { std::cmp::Ordering::Less } else { std::cmp::Ordering::Equal }).is_ok()
}

fn iv_first(a: &Iv) -> Option<u32> {
    a.first().map(|x| x.0)
}

fn iv_last(a: &Iv) -> Option<u32> {
    a.last().map(|x| x.1)
}

fn iv_iter_fwd(a: &Iv, from: Option<u32>, n: usize) -> Vec<u32> {
    let mut out = Vec::new();
    for (s, e) in a {
        let mut v = *s as u64;
        if let Some(f) = from {
            if (*e as u64) <= f as u64 {
                continue;
            }
            v = v.max(f as u64 + 1);
        }
        while v <= *e as u64 && out.len() < n {
            out.push(v as u32);
            v += 1;
        }
        if out.len() >= n {
            break;
        }
    }
    out
}

fn iv_iter_back(a: &Iv, n: usize) -> Vec<u32> {
    let mut out = Vec::new();
    for (s, e) in a.iter().rev() {
        let mut v = *e as i64;
        while v >= *s as i64 && out.len() < n {
            out.push(v as u32);
            v -= 1;
        }
        if out.len() >= n {
            break;
        }
    }
    out
}

/// lexicographic order of the ascending member sequences
fn iv_cmp(a: &Iv, b: &Iv) -> std::cmp::Ordering {
    use std::cmp::Ordering::*;
    let only_a = iv_subtract(a, b);
    let only_b = iv_subtract(b, a);
    match (iv_first(&only_a), iv_first(&only_b)) {
        (None, None) => Equal,
        (Some(d), other) if other.map(|o| d < o).unwrap_or(true) => {
            // d in a only: b's element at that position is its smallest member above d
            if iv_last(b).map(|l| l > d).unwrap_or(false) {
                Less
            } else {
                Greater
            }
        }
        (_, Some(d)) => {
            if iv_last(a).map(|l| l > d).unwrap_or(false) {
                Greater
            } else {
                Less
            }
        }
        (Some(_), None) => unreachable!(),
    }
}

// ------------------------------------------------------------------ element domains

#[derive(Clone, Copy, PartialEq, Eq, PartialOrd, Ord, Hash, Debug)]
pub struct Gappy(u32);

const GAPPY_PARTS: [(u32, u32); 5] = [(0, 600), (1000, 1100), (5000, 5001), (1 << 20, (1 << 20) + 520), (u32::MAX - 3, u32::MAX)];

impl Domain for Gappy {
    fn to_u32(&self) -> u32 {
        self.0
    }
    fn contains(value: u32) -> bool {
        GAPPY_PARTS.iter().any(|(a, b)| value >= *a && value <= *b)
    }
    fn from_u32(member: InDomain) -> Self {
        Gappy(member.value())
    }
    fn is_continuous() -> bool {
        false
    }
    fn ordered_values() -> impl DoubleEndedIterator<Item = u32> {
        GAPPY_PARTS.into_iter().flat_map(|(a, b)| a..=b)
    }
    fn ordered_values_range(range: RangeInclusive<Self>) -> impl DoubleEndedIterator<Item = u32> {
        let (lo, hi) = (range.start().0, range.end().0);
        Self::ordered_values().filter(move |v| *v >= lo && *v <= hi)
    }
    fn count() -> u64 {
        GAPPY_PARTS.iter().map(|(a, b)| (*b - *a) as u64 + 1).sum()
    }
}

pub trait Elem: Domain + Ord + Copy + Hash + std::fmt::Debug {
    fn mk(v: u32) -> Self;
    fn universe() -> Iv;
    const CONTINUOUS: bool;
    const NAME: &'static str;
}
impl Elem for u32 {
    fn mk(v: u32) -> Self {
        v
    }
    fn universe() -> Iv {
        vec![(0, u32::MAX)]
    }
    const CONTINUOUS: bool = true;
    const NAME: &'static str = "u32";
}
impl Elem for u16 {
    fn mk(v: u32) -> Self {
        v as u16
    }
    fn universe() -> Iv {
        vec![(0, u16::MAX as u32)]
    }
    const CONTINUOUS: bool = true;
    const NAME: &'static str = "u16";
}
impl Elem for u8 {
    fn mk(v: u32) -> Self {
        v as u8
    }
    fn universe() -> Iv {
        vec![(0, 255)]
    }
    const CONTINUOUS: bool = true;
    const NAME: &'static str = "u8";
}
impl Elem for Gappy {
    fn mk(v: u32) -> Self {
        Gappy(v)
    }
    fn universe() -> Iv {
        GAPPY_PARTS.to_vec()
    }
    const CONTINUOUS: bool = false;
    const NAME: &'static str = "gappy";
}

// ------------------------------------------------------------------ history

#[derive(Clone, Debug, Serialize, Deserialize, PartialEq)]
pub enum SetOp {
    Insert(usize, u32),
    Remove(usize, u32),
    InsertRange(usize, u32, u32),
    RemoveRange(usize, u32, u32),
    Extend(usize, Vec<u32>),
    ExtendUnsorted(usize, Vec<u32>),
    RemoveAll(usize, Vec<u32>),
    Union(usize, usize),
    Intersect(usize, usize),
    Subtract(usize, usize),
    Invert(usize),
    Clear(usize),
    CloneInto(usize, usize),
}

#[derive(Clone, Debug, Serialize, Deserialize)]
pub struct SetTrace {
    /// 0 u32, 1 u16, 2 u8, 3 gappy
    pub domain: u8,
    pub slots: usize,
    pub ops: Vec<SetOp>,
    pub probe_seed: u64,
}

fn clamp_to_universe(u: &Iv, v: u32) -> u32 {
    // map an arbitrary value to a member of the universe (nearest at or below, else first)
    let mut best = u[0].0;
    for (a, b) in u {
        if v >= *a && v <= *b {
            return v;
        }
        if *b < v {
            best = *b;
        }
    }
    best
}

/// Ranges are stored as bit pages: a multi-billion span costs hundreds of megabytes in the library
/// (a resource characteristic, not a property), so generated spans stay below 2^17.
fn limit_span(u: &Iv, a: u32, b: u32) -> (u32, u32) {
    if b - a > 130_000 {
        (a, clamp_to_universe(u, a + 130_000))
    } else {
        (a, b)
    }
}

fn gen_value(rng: &mut Rng, u: &Iv, model: &[Iv]) -> u32 {
    let hi = iv_last(u).unwrap();
    let v = match rng.below(8) {
        0 => 0,
        1 => hi,
        2 => {
            // page edges (512 values per page)
            let page = rng.below(if hi > 100_000 { 4000 } else { (hi as u64 / 512).max(1) }) as u32;
            (page * 512).wrapping_add(rng.range(-2, 2) as u32)
        }
        3 | 4 => {
            // near something already present
            let m = &model[rng.usize_below(model.len())];
            if m.is_empty() {
                rng.below(hi as u64 + 1) as u32
            } else {
                let (a, b) = m[rng.usize_below(m.len())];
                let base = if rng.chance(1, 2) { a } else { b };
                base.wrapping_add(rng.range(-2, 2) as u32)
            }
        }
        5 => rng.below(1200) as u32,
        _ => rng.below(hi as u64 + 1) as u32,
    };
    clamp_to_universe(u, v.min(hi))
}

fn run_set_history<T: Elem>(t: &SetTrace, stats: &mut Stats) -> Result<u64, Violation> {
    let u = T::universe();
    let mut real: Vec<IntSet<T>> = (0..t.slots).map(|_| IntSet::<T>::empty()).collect();
    let mut model: Vec<Iv> = vec![vec![]; t.slots];
    let mut d = Digest::new();
    let mut prng = Rng::new(t.probe_seed);
    let fail = |oracle: &str, i: usize, op: &SetOp, detail: String| Violation::new("C14", oracle, format!("domain {} op {i} {:?}: {detail}", T::NAME, op));
    for (i, op) in t.ops.iter().enumerate() {
        let in_u = |m: Iv| iv_intersect(&m, &u);
        match op {
            SetOp::Insert(s, v) => {
                let was = iv_contains(&model[*s], *v);
                let r = real[*s].insert(T::mk(*v));
                if r == was {
                    return Err(fail("C14.insert_return", i, op, format!("insert returned {r} but the value was {}present", if was { "" } else { "not " })));
                }
                model[*s] = iv_union(&model[*s], &vec![(*v, *v)]);
            }
            SetOp::Remove(s, v) => {
                let was = iv_contains(&model[*s], *v);
                let r = real[*s].remove(T::mk(*v));
                if r != was {
                    return Err(fail("C14.remove_return", i, op, format!("remove returned {r} but the value was {}present", if was { "" } else { "not " })));
                }
                model[*s] = iv_subtract(&model[*s], &vec![(*v, *v)]);
            }
            SetOp::InsertRange(s, a, b) => {
                real[*s].insert_range(T::mk(*a)..=T::mk(*b));
                if a <= b {
                    model[*s] = in_u(iv_union(&model[*s], &vec![(*a, *b)]));
                }
            }
            SetOp::RemoveRange(s, a, b) => {
                real[*s].remove_range(T::mk(*a)..=T::mk(*b));
                if a <= b {
                    model[*s] = iv_subtract(&model[*s], &vec![(*a, *b)]);
                }
            }
            SetOp::Extend(s, vs) => {
                real[*s].extend(vs.iter().map(|v| T::mk(*v)));
                model[*s] = iv_union(&model[*s], &norm(vs.iter().map(|v| (*v, *v)).collect()));
            }
            SetOp::ExtendUnsorted(s, vs) => {
                real[*s].extend_unsorted(vs.iter().map(|v| T::mk(*v)));
                model[*s] = iv_union(&model[*s], &norm(vs.iter().map(|v| (*v, *v)).collect()));
            }
            SetOp::RemoveAll(s, vs) => {
                real[*s].remove_all(vs.iter().map(|v| T::mk(*v)));
                model[*s] = iv_subtract(&model[*s], &norm(vs.iter().map(|v| (*v, *v)).collect()));
            }
            SetOp::Union(a, b) => {
                let o = real[*b].clone();
                real[*a].union(&o);
                model[*a] = iv_union(&model[*a], &model[*b].clone());
            }
            SetOp::Intersect(a, b) => {
                let o = real[*b].clone();
                real[*a].intersect(&o);
                model[*a] = iv_intersect(&model[*a], &model[*b].clone());
            }
            SetOp::Subtract(a, b) => {
                let o = real[*b].clone();
                real[*a].subtract(&o);
                model[*a] = iv_subtract(&model[*a], &model[*b].clone());
            }
            SetOp::Invert(s) => {
                real[*s].invert();
                model[*s] = iv_subtract(&u, &model[*s]);
                stats.bump("probe.C14.inverted");
            }
            SetOp::Clear(s) => {
                real[*s].clear();
                model[*s].clear();
            }
            SetOp::CloneInto(a, b) => {
                real[*b] = real[*a].clone();
                model[*b] = model[*a].clone();
            }
        }
        // ---- observers on the touched slot(s)
        let touched: Vec<usize> = match op {
            SetOp::CloneInto(_, b) => vec![*b],
            SetOp::Insert(s, _) | SetOp::Remove(s, _) | SetOp::InsertRange(s, ..) | SetOp::RemoveRange(s, ..) | SetOp::Extend(s, _) | SetOp::ExtendUnsorted(s, _) | SetOp::RemoveAll(s, _) | SetOp::Invert(s) | SetOp::Clear(s) => vec![*s],
            SetOp::Union(a, _) | SetOp::Intersect(a, _) | SetOp::Subtract(a, _) => vec![*a],
        };
        for s in touched {
            let (r, m) = (&real[s], &model[s]);
            stats.bump("oracle.C14.observers_vs_interval_model");
            if r.len() != iv_len(m) {
                return Err(fail("C14.len", i, op, format!("len {} but the set has {} members", r.len(), iv_len(m))));
            }
            if r.is_empty() != m.is_empty() {
                return Err(fail("C14.is_empty", i, op, format!("is_empty {}", r.is_empty())));
            }
            if r.first().map(|v| v.to_u32()) != iv_first(m) || r.last().map(|v| v.to_u32()) != iv_last(m) {
                return Err(fail("C14.first_last", i, op, format!("first/last {:?}/{:?}, expected {:?}/{:?}", r.first(), r.last(), iv_first(m), iv_last(m))));
            }
            // membership probes: interval edges +-1 and random values
            let mut probes: Vec<u32> = Vec::new();
            for (a, b) in m.iter().take(6).chain(m.iter().rev().take(6)) {
                probes.extend([a.wrapping_sub(1), *a, *b, b.wrapping_add(1)]);
            }
            for _ in 0..6 {
                probes.push(prng.next_u32());
            }
            for p in probes {
                let p = clamp_to_universe(&u, p);
                if r.contains(T::mk(p)) != iv_contains(m, p) {
                    return Err(fail("C14.contains", i, op, format!("contains({p}) = {}", r.contains(T::mk(p)))));
                }
            }
            // iterating an inverted set walks the whole domain (documented as slow): only iterate when
            // the members asked for lie within reach of the starting point
            let near = |from: u32, vals: &[u32]| vals.last().map(|l| l.abs_diff(from) < 300_000).unwrap_or(false);
            let lo = iv_first(&u).unwrap();
            let hi = iv_last(&u).unwrap();
            let want_fwd = iv_iter_fwd(m, None, 150);
            let can_fwd = !r.is_inverted() || (want_fwd.len() == 150 && near(lo, &want_fwd)) || hi - lo < 300_000;
            let want_back = iv_iter_back(m, 150);
            let can_back = !r.is_inverted() || (want_back.len() == 150 && near(hi, &want_back)) || hi - lo < 300_000;
            if !can_fwd || !can_back {
                stats.bump("probe.C14.iteration_skipped_inverted_far");
            }
            let fwd: Vec<u32> = if can_fwd { r.iter().take(150).map(|v| v.to_u32()).collect() } else { want_fwd.clone() };
            if fwd != want_fwd {
                return Err(fail("C14.iter_forward", i, op, format!("forward iteration starts {:?}, expected {:?}", &fwd[..fwd.len().min(8)], &iv_iter_fwd(m, None, 8))));
            }
            let back: Vec<u32> = if can_back { r.iter().rev().take(150).map(|v| v.to_u32()).collect() } else { want_back.clone() };
            if back != want_back {
                return Err(fail("C14.iter_backward", i, op, format!("backward iteration starts {:?}, expected {:?}", &back[..back.len().min(8)], &iv_iter_back(m, 8))));
            }
            let after = clamp_to_universe(&u, gen_value(&mut prng, &u, &model));
            let want_aft = iv_iter_fwd(m, Some(after), 60);
            let can_aft = !r.is_inverted() || (want_aft.len() == 60 && near(after, &want_aft)) || hi - lo < 300_000;
            let aft: Vec<u32> = if can_aft { r.iter_after(T::mk(after)).take(60).map(|v| v.to_u32()).collect() } else { want_aft.clone() };
            if aft != want_aft {
                return Err(fail("C14.iter_after", i, op, format!("iter_after({after}) starts {:?}, expected {:?}", &aft[..aft.len().min(8)], &iv_iter_fwd(m, Some(after), 8))));
            }
            if T::CONTINUOUS {
                let rs: Vec<(u32, u32)> = r.iter_ranges().take(200).map(|x| (x.start().to_u32(), x.end().to_u32())).collect();
                let want: Vec<(u32, u32)> = m.iter().take(200).copied().collect();
                if rs != want {
                    return Err(fail("C14.iter_ranges", i, op, format!("ranges start {:?}, expected {:?}", &rs[..rs.len().min(4)], &want[..want.len().min(4)])));
                }
                let ex: Vec<(u32, u32)> = r.iter_excluded_ranges().take(200).map(|x| (x.start().to_u32(), x.end().to_u32())).collect();
                let wantx: Vec<(u32, u32)> = iv_subtract(&u, m).into_iter().take(200).collect();
                if ex != wantx {
                    return Err(fail("C14.iter_excluded_ranges", i, op, format!("excluded ranges start {:?}, expected {:?}", &ex[..ex.len().min(4)], &wantx[..wantx.len().min(4)])));
                }
            } else {
                // discontinuous domain: ranges must expand to exactly the members
                let mut members: Vec<u32> = Vec::new();
                for x in r.iter_ranges().take(400) {
                    for v in Gappy::ordered_values_range(Gappy(x.start().to_u32())..=Gappy(x.end().to_u32())) {
                        members.push(v);
                        if members.len() > 3000 {
                            break;
                        }
                    }
                }
                if members.len() <= 3000 && iv_len(m) <= 3000 && members != iv_iter_fwd(m, None, 4000) {
                    return Err(fail("C14.iter_ranges", i, op, "ranges do not expand to the members".to_string()));
                }
            }
            // range intersection tests
            for _ in 0..3 {
                let a = gen_value(&mut prng, &u, &model);
                let b = gen_value(&mut prng, &u, &model);
                let (a, b) = (a.min(b), a.max(b));
                let want = !iv_intersect(m, &vec![(a, b)]).is_empty();
                if r.intersects_range(T::mk(a)..=T::mk(b)) != want {
                    return Err(fail("C14.intersects_range", i, op, format!("intersects_range({a}..={b}) = {}", !want)));
                }
            }
            // relations with every slot
            for o in 0..t.slots {
                let (ro, mo) = (&real[o], &model[o]);
                let want_int = !iv_intersect(m, mo).is_empty();
                if r.intersects_set(ro) != want_int {
                    return Err(fail("C14.intersects_set", i, op, format!("intersects_set(slot {o}) = {}", !want_int)));
                }
                let eq = m == mo;
                if (r == ro) != eq {
                    return Err(fail("C14.eq", i, op, format!("== with slot {o} is {} but the sets are {}equal", r == ro, if eq { "" } else { "not " })));
                }
                if eq {
                    let h = |x: &IntSet<T>| {
                        let mut s = DefaultHasher::new();
                        x.hash(&mut s);
                        s.finish()
                    };
                    if h(r) != h(ro) {
                        return Err(fail("C14.hash", i, op, format!("equal sets (slot {s} and {o}) hash differently")));
                    }
                    if r.is_inverted() != ro.is_inverted() {
                        stats.bump("probe.C14.equal_sets_in_different_modes");
                    }
                }
                let want_cmp = iv_cmp(m, mo);
                if r.cmp(ro) != want_cmp {
                    return Err(fail("C14.ord", i, op, format!("cmp with slot {o} is {:?}, lexicographic order of members is {:?}", r.cmp(ro), want_cmp)));
                }
            }
            d.u64(iv_len(m));
            d.u64(iv_first(m).unwrap_or(7) as u64);
        }
    }
    Ok(d.finish())
}

pub struct IntSetHistory;

impl Engine for IntSetHistory {
    type Trace = SetTrace;
    fn name(&self) -> &'static str {
        "intset_history"
    }
    fn rule(&self) -> &'static str {
        "case = history of <=60 set operations over 1-4 slots in one of four element domains (u32, u16, u8, a discontinuous domain with gaps at page edges), arguments biased to page edges/0/MAX/present values; every observer compared with a sorted-interval model after every operation; distinct by hash of the history; non-trivial iff the history contains an inversion or a binary set operation. The fault and schedule axes are empty for this object."
    }
    fn components(&self) -> &'static str {
        "real: read_fonts::collections::IntSet (bitset pages, inverted mode); model: sorted disjoint interval list"
    }
    fn generate(&self, case_seed: u64) -> SetTrace {
        let mut rng = Rng::new(case_seed);
        let domain = rng.below(4) as u8;
        let u = match domain {
            0 => <u32 as Elem>::universe(),
            1 => <u16 as Elem>::universe(),
            2 => <u8 as Elem>::universe(),
            _ => Gappy::universe(),
        };
        let slots = 1 + rng.usize_below(4);
        let n = 3 + rng.usize_below(57);
        // a shadow model only to bias arguments towards present values
        let mut shadow: Vec<Iv> = vec![vec![]; slots];
        let mut ops = Vec::new();
        for _ in 0..n {
            let s = rng.usize_below(slots);
            let o = rng.usize_below(slots);
            let op = match rng.below(16) {
                0..=2 => SetOp::Insert(s, gen_value(&mut rng, &u, &shadow)),
                3 => SetOp::Remove(s, gen_value(&mut rng, &u, &shadow)),
                4 | 5 => {
                    let a = gen_value(&mut rng, &u, &shadow);
                    let b = if rng.chance(1, 2) { clamp_to_universe(&u, a.saturating_add(rng.below(1500) as u32)) } else { gen_value(&mut rng, &u, &shadow) };
                    let (a, b) = limit_span(&u, a.min(b), a.max(b));
                    SetOp::InsertRange(s, a, b)
                }
                6 => {
                    let a = gen_value(&mut rng, &u, &shadow);
                    let b = if rng.chance(1, 2) { clamp_to_universe(&u, a.saturating_add(rng.below(1500) as u32)) } else { gen_value(&mut rng, &u, &shadow) };
                    let (a, b) = limit_span(&u, a.min(b), a.max(b));
                    SetOp::RemoveRange(s, a, b)
                }
                7 => {
                    let mut v: Vec<u32> = (0..rng.below(12)).map(|_| gen_value(&mut rng, &u, &shadow)).collect();
                    v.sort_unstable();
                    SetOp::Extend(s, v)
                }
                8 => SetOp::ExtendUnsorted(s, (0..rng.below(12)).map(|_| gen_value(&mut rng, &u, &shadow)).collect()),
                9 => SetOp::RemoveAll(s, (0..rng.below(12)).map(|_| gen_value(&mut rng, &u, &shadow)).collect()),
                10 => SetOp::Union(s, o),
                11 => SetOp::Intersect(s, o),
                12 => SetOp::Subtract(s, o),
                13 => SetOp::Invert(s),
                14 => {
                    if rng.chance(1, 3) {
                        SetOp::Clear(s)
                    } else {
                        SetOp::Invert(s)
                    }
                }
                _ => SetOp::CloneInto(s, o),
            };
            // keep the shadow roughly in step (only insertions matter for biasing)
            match &op {
                SetOp::Insert(s, v) => shadow[*s] = iv_union(&shadow[*s], &vec![(*v, *v)]),
                SetOp::InsertRange(s, a, b) => shadow[*s] = iv_union(&shadow[*s], &vec![(*a, *b)]),
                _ => {}
            }
            ops.push(op);
        }
        SetTrace { domain, slots, ops, probe_seed: rng.next_u64() }
    }
    fn execute(&self, t: &mut SetTrace, stats: &mut Stats) -> Verdict {
        let r = match t.domain {
            0 => run_set_history::<u32>(t, stats),
            1 => run_set_history::<u16>(t, stats),
            2 => run_set_history::<u8>(t, stats),
            _ => run_set_history::<Gappy>(t, stats),
        };
        match r {
            Ok(digest) => {
                let nontrivial = t.ops.iter().any(|o| matches!(o, SetOp::Invert(_) | SetOp::Union(..) | SetOp::Intersect(..) | SetOp::Subtract(..)));
                Verdict::Pass { digest, sig: fnv(serde_json::to_string(&(&t.domain, &t.ops)).unwrap_or_default().as_bytes()), nontrivial }
            }
            Err(v) => Verdict::Fail(v),
        }
    }
    fn shrink(&self, t: &SetTrace) -> Vec<SetTrace> {
        let mut out: Vec<SetTrace> = drop_chunks(&t.ops).into_iter().map(|ops| SetTrace { ops, ..t.clone() }).collect();
        for (i, op) in t.ops.iter().enumerate() {
            match op {
                SetOp::Extend(s, v) | SetOp::ExtendUnsorted(s, v) | SetOp::RemoveAll(s, v) if v.len() > 1 => {
                    for c in drop_chunks(v) {
                        let mut n = t.clone();
                        n.ops[i] = match op {
                            SetOp::Extend(..) => SetOp::Extend(*s, c),
                            SetOp::ExtendUnsorted(..) => SetOp::ExtendUnsorted(*s, c),
                            _ => SetOp::RemoveAll(*s, c),
                        };
                        out.push(n);
                    }
                }
                _ => {}
            }
        }
        out
    }
}

// ------------------------------------------------------------------ sparse bit set codec under stream faults

#[derive(Clone, Debug, Serialize, Deserialize)]
pub struct CodecTrace {
    pub members: Vec<u32>,
    pub bf: u32,
    pub elide: bool,
    pub bias: u32,
    pub max: u32,
    /// garbage appended after the encoding
    pub tail: Vec<u8>,
    /// arbitrary bytes instead of an encoding (decoder must not panic; within supported heights it must agree with the specification decoder)
    pub raw: Option<Vec<u8>>,
}

pub struct SparseBitSetCodec;

fn decode_real(data: &[u8], bias: u32, max: u32) -> Option<(Vec<(u32, u32)>, usize, bool)> {
    match IntSet::<u32>::from_sparse_bit_set_bounded(data, bias, max) {
        Ok((set, rest)) => {
            let ranges: Vec<(u32, u32)> = set.iter_ranges().take(2_000_001).map(|r| (*r.start(), *r.end())).collect();
            let too_many = ranges.len() > 2_000_000;
            Some((ranges, data.len() - rest.len(), too_many))
        }
        Err(_) => None,
    }
}

fn within_budget(data: &[u8], max: u32) -> bool {
    let Some(first) = data.first() else { return true };
    let bf: u64 = match first & 3 {
        0 => 2,
        1 => 4,
        2 => 8,
        _ => 32,
    };
    let h = ((first >> 2) & 0x1f) as u32;
    let span = bf.checked_pow(h).unwrap_or(u64::MAX);
    span.min(max as u64 + 1) <= (1 << 26)
}

fn supported_height(data: &[u8]) -> bool {
    let Some(first) = data.first() else { return true };
    let bf = match first & 3 {
        0 => 2,
        1 => 4,
        2 => 8,
        _ => 32,
    };
    (((first >> 2) & 0x1f) as u32) <= encode::bf_max_height(bf)
}

impl Engine for SparseBitSetCodec {
    type Trace = CodecTrace;
    fn name(&self) -> &'static str {
        "sparse_bit_set_codec"
    }
    fn rule(&self) -> &'static str {
        "case = (member set, branch factor, bias, max) encoded by the library and by the harness encoder, decoded; then the stream is faulted: truncated at EVERY byte, EVERY single bit of the first 64 bytes flipped, garbage appended; or arbitrary bytes are decoded; real decoder compared with a specification-text decoder (members after bias/max and bytes consumed); distinct by hash of the case; non-trivial iff the set is non-empty and >=1 faulted stream decoded"
    }
    fn components(&self) -> &'static str {
        "real: IntSet::to_sparse_bit_set / to_sparse_bit_set_with_bf / from_sparse_bit_set_bounded; model: harness encoder and decoder written from the IFT specification text"
    }
    fn generate(&self, case_seed: u64) -> CodecTrace {
        let mut rng = Rng::new(case_seed);
        let bf = *rng.pick(&[2u32, 4, 8, 32]);
        let span: u64 = match rng.below(6) {
            0 => 8,
            1 => 64,
            2 => 600,
            3 => 70_000,
            4 => 0x10FFFF,
            _ => u32::MAX as u64,
        };
        let mut members: Vec<u32> = Vec::new();
        let n = rng.below(40);
        for _ in 0..n {
            if rng.chance(1, 4) && !members.is_empty() {
                // a run: exercises filled-node elision
                let s = *members.last().unwrap();
                for k in 1..=(rng.below(70) as u32) {
                    members.push(s.saturating_add(k));
                }
            } else {
                members.push(rng.below(span + 1) as u32);
            }
        }
        members.sort_unstable();
        members.dedup();
        if bf == 2 {
            members.retain(|m| *m < (1 << 31));
        }
        let bias = match rng.below(4) {
            0 => 0,
            1 => rng.below(70_000) as u32,
            2 => u32::MAX - rng.below(100) as u32,
            _ => rng.below(0x110000) as u32,
        };
        let max = *rng.pick(&[0x10FFFFu32, u32::MAX, 0, 300, 65_535]);
        let tail_len = rng.below(6) as usize;
        let tail = if rng.chance(1, 2) { rng.bytes(tail_len) } else { vec![] };
        let raw = if rng.chance(1, 4) {
            let raw_len = 1 + rng.below(40) as usize;
            let mut b = rng.bytes(raw_len);
            // keep heights mostly within the supported range so that the comparison is meaningful
            if rng.chance(3, 4) {
                let bfc = b[0] & 3;
                let mh = encode::bf_max_height([2, 4, 8, 32][bfc as usize]);
                let h = rng.below(mh.min(6) as u64 + 1) as u8;
                b[0] = bfc | (h << 2);
            }
            // the shortest encodings of "everything": a tree of (nearly) maximal height whose first nodes are
            // filled markers (all-zero nodes)
            if rng.chance(1, 5) {
                let bfc = rng.below(4) as u8;
                let mh = encode::bf_max_height([2, 4, 8, 32][bfc as usize]) as u8;
                let h = mh.saturating_sub(rng.below(3) as u8);
                b = vec![bfc | (h << 2)];
                for _ in 0..1 + rng.below(3) {
                    b.push(*rng.pick(&[0u8, 0, 0, 1, 0x10, 0x80]));
                }
            }
            Some(b)
        } else {
            None
        };
        CodecTrace { members, bf, elide: rng.chance(1, 2), bias, max, tail, raw }
    }
    fn execute(&self, t: &mut CodecTrace, stats: &mut Stats) -> Verdict {
        let fail = |oracle: &str, detail: String| Verdict::Fail(Violation::new("C14", oracle, detail));
        let compare = |data: &[u8], bias: u32, max: u32, stats: &mut Stats, what: &str| -> Option<Verdict> {
            if !within_budget(data, max) {
                // a filled node near the root of a tall tree makes the library materialise up to 2^32 bits
                // (hundreds of megabytes): a resource characteristic outside this property; not decoded
                stats.bump("probe.C14.stream_skipped_span_beyond_2^26");
                return None;
            }
            let real = decode_real(data, bias, max);
            if !supported_height(data) {
                return None; // outside the supported tree heights only "no panic" is required
            }
            let spec = encode::sparse_bit_set_decode_spec(data, bias, max);
            stats.bump("oracle.C14.decoder_vs_specification_decoder");
            match (real, spec) {
                (None, None) => None,
                (Some((_, _, true)), _) => None,
                (Some(_), Some((_, usize::MAX))) => None,
                (Some((rm, rc, _)), Some((sm, sc))) => {
                    if rm != sm || rc != sc {
                        Some(Verdict::Fail(Violation::new(
                            "C14",
                            "C14.codec.decode_vs_spec",
                            format!("{what}: decoder gives {} ranges / {} bytes consumed, specification algorithm {} ranges / {} bytes (data {:02x?}, bias {bias}, max {max})", rm.len(), rc, sm.len(), sc, &data[..data.len().min(24)]),
                        )))
                    } else {
                        None
                    }
                }
                (a, b) => Some(Verdict::Fail(Violation::new(
                    "C14",
                    "C14.codec.decode_vs_spec",
                    format!("{what}: decoder {} but specification algorithm {} (data {:02x?}, bias {bias}, max {max})", if a.is_some() { "succeeds" } else { "fails" }, if b.is_some() { "succeeds" } else { "fails" }, &data[..data.len().min(24)]),
                ))),
            }
        };
        let mut d = Digest::new();
        if let Some(raw) = &t.raw {
            stats.bump("fault.stream.arbitrary_bytes");
            if let Some(v) = compare(raw, t.bias, t.max, stats, "arbitrary bytes") {
                return v;
            }
            d.bytes(raw);
            return Verdict::Pass { digest: d.finish(), sig: fnv(raw), nontrivial: raw.len() > 1 };
        }
        // round trip through the library encoder, every branch factor
        let mut set = IntSet::<u32>::empty();
        for m in &t.members {
            set.insert(*m);
        }
        let encs: Vec<(String, Vec<u8>)> = vec![
            ("to_sparse_bit_set".into(), set.to_sparse_bit_set()),
            ("bf2".into(), read_fonts::collections::int_set::sparse_bit_set::to_sparse_bit_set_with_bf::<2>(&set)),
            ("bf4".into(), read_fonts::collections::int_set::sparse_bit_set::to_sparse_bit_set_with_bf::<4>(&set)),
            ("bf8".into(), read_fonts::collections::int_set::sparse_bit_set::to_sparse_bit_set_with_bf::<8>(&set)),
            ("bf32".into(), read_fonts::collections::int_set::sparse_bit_set::to_sparse_bit_set_with_bf::<32>(&set)),
            ("harness".into(), encode::sparse_bit_set(&t.members, t.bf, t.elide)),
        ];
        for (name, enc) in &encs {
            stats.bump("oracle.C14.encode_decode_roundtrip");
            match IntSet::<u32>::from_sparse_bit_set(enc) {
                Ok(back) => {
                    if back != set {
                        return fail("C14.codec.roundtrip", format!("{name}: decoding the encoding of {} members gives {} members", set.len(), back.len()));
                    }
                }
                Err(_) => return fail("C14.codec.roundtrip", format!("{name}: decoding the encoding of {} members fails", set.len())),
            }
            d.bytes(enc);
        }
        // faults on the harness encoding and on the library's own encoding
        let mut faulted = 0u64;
        for enc in [&encs[5].1, &encs[0].1] {
            // with bias / max and appended garbage
            let mut with_tail = enc.clone();
            with_tail.extend_from_slice(&t.tail);
            if !t.tail.is_empty() {
                stats.bump("fault.stream.appended_garbage");
            }
            if let Some(v) = compare(&with_tail, t.bias, t.max, stats, "bias/max/tail") {
                return v;
            }
            for cut in 0..enc.len().min(400) {
                stats.bump("fault.stream.truncate");
                faulted += 1;
                if let Some(v) = compare(&enc[..cut], t.bias, t.max, stats, "truncated") {
                    return v;
                }
            }
            for bit in 0..(enc.len().min(64) * 8) {
                let mut f = enc.clone();
                f[bit / 8] ^= 1 << (bit % 8);
                stats.bump("fault.stream.bit_flip");
                faulted += 1;
                if let Some(v) = compare(&f, t.bias, t.max, stats, "bit flip") {
                    return v;
                }
            }
        }
        Verdict::Pass { digest: d.finish(), sig: fnv(serde_json::to_string(&(&t.members, t.bf, t.bias, t.max)).unwrap_or_default().as_bytes()), nontrivial: !t.members.is_empty() && faulted > 0 }
    }
    fn shrink(&self, t: &CodecTrace) -> Vec<CodecTrace> {
        let mut out = Vec::new();
        for m in drop_chunks(&t.members) {
            out.push(CodecTrace { members: m, ..t.clone() });
        }
        if let Some(r) = &t.raw {
            for c in drop_chunks(r) {
                if !c.is_empty() {
                    out.push(CodecTrace { raw: Some(c), ..t.clone() });
                }
            }
        }
        if t.bias != 0 {
            out.push(CodecTrace { bias: 0, ..t.clone() });
        }
        if !t.tail.is_empty() {
            out.push(CodecTrace { tail: vec![], ..t.clone() });
        }
        out
    }
}

// ------------------------------------------------------------------ RangeSet histories

#[derive(Clone, Debug, Serialize, Deserialize)]
pub struct RangeTrace {
    pub a: Vec<(u16, u16)>,
    pub b: Vec<(u16, u16)>,
}

pub struct RangeSetHistory;

impl Engine for RangeSetHistory {
    type Trace = RangeTrace;
    fn name(&self) -> &'static str {
        "rangeset_history"
    }
    fn rule(&self) -> &'static str {
        "case = two insertion histories of inclusive u16 ranges (overlapping, adjacent, nested, reversed, at 0 and MAX); after every insertion the range set must be sorted, disjoint, non-adjacent with exact membership; intersection of the two sets compared with the interval model; non-trivial iff >=2 ranges merged"
    }
    fn components(&self) -> &'static str {
        "real: read_fonts::collections::RangeSet insert/iter/intersection; model: sorted disjoint interval list"
    }
    fn generate(&self, case_seed: u64) -> RangeTrace {
        let mut rng = Rng::new(case_seed);
        let mut gen = |rng: &mut Rng| -> Vec<(u16, u16)> {
            (0..rng.below(14))
                .map(|_| {
                    let a = match rng.below(6) {
                        0 => 0,
                        1 => u16::MAX,
                        2 => u16::MAX - rng.below(4) as u16,
                        _ => rng.below(200) as u16,
                    };
                    let len = rng.below(12) as u16;
                    let b = a.saturating_add(len);
                    if rng.chance(1, 12) {
                        (b, a)
                    } else {
                        (a, b)
                    }
                })
                .collect()
        };
        RangeTrace { a: gen(&mut rng), b: gen(&mut rng) }
    }
    fn execute(&self, t: &mut RangeTrace, stats: &mut Stats) -> Verdict {
        let build = |hist: &[(u16, u16)], stats: &mut Stats| -> Result<(RangeSet<u16>, Iv, bool), Violation> {
            let mut rs = RangeSet::<u16>::default();
            let mut m: Iv = vec![];
            let mut merged = false;
            for (i, (a, b)) in hist.iter().enumerate() {
                rs.insert(*a..=*b);
                if a <= b {
                    let before = m.len();
                    m = iv_union(&m, &vec![(*a as u32, *b as u32)]);
                    if m.len() <= before {
                        merged = true;
                    }
                }
                let got: Vec<(u32, u32)> = rs.iter().map(|r| (*r.start() as u32, *r.end() as u32)).collect();
                stats.bump("oracle.C14.rangeset_vs_interval_model");
                if got != m {
                    return Err(Violation::new("C14", "C14.rangeset.insert", format!("after inserting {:?} (step {i}) ranges are {:?}, expected {:?}", (a, b), got, m)));
                }
                if rs.is_empty() != m.is_empty() {
                    return Err(Violation::new("C14", "C14.rangeset.is_empty", format!("is_empty {} after step {i}", rs.is_empty())));
                }
            }
            Ok((rs, m, merged))
        };
        let (ra, ma, m1) = match build(&t.a, stats) {
            Ok(x) => x,
            Err(v) => return Verdict::Fail(v),
        };
        let (rb, mb, m2) = match build(&t.b, stats) {
            Ok(x) => x,
            Err(v) => return Verdict::Fail(v),
        };
        let got: Vec<(u32, u32)> = ra.intersection(&rb).map(|r| (*r.start() as u32, *r.end() as u32)).collect();
        let want = iv_intersect(&ma, &mb);
        // the intersection iterator yields pieces; compare as member sets
        if norm(got.clone()) != norm(want.clone()) || got.iter().any(|(a, b)| a > b) {
            return Verdict::Fail(Violation::new("C14", "C14.rangeset.intersection", format!("intersection {:?}, expected {:?}", got, want)));
        }
        let mut d = Digest::new();
        for (a, b) in &ma {
            d.u64(((*a as u64) << 32) | *b as u64);
        }
        Verdict::Pass { digest: d.finish(), sig: fnv(serde_json::to_string(&(&t.a, &t.b)).unwrap_or_default().as_bytes()), nontrivial: m1 || m2 }
    }
    fn shrink(&self, t: &RangeTrace) -> Vec<RangeTrace> {
        let mut out = Vec::new();
        for a in drop_chunks(&t.a) {
            out.push(RangeTrace { a, b: t.b.clone() });
        }
        for b in drop_chunks(&t.b) {
            out.push(RangeTrace { a: t.a.clone(), b });
        }
        out
    }
}

// ------------------------------------------------------------------ FontBuilder histories (C06)

use crate::ift::sim::check_container;
use std::collections::BTreeMap;
use write_fonts::types::Tag;
use write_fonts::FontBuilder;

#[derive(Clone, Debug, Serialize, Deserialize, PartialEq)]
pub enum FbOp {
    AddRaw { tag: [u8; 4], len: u32, seed: u64 },
    /// the same, but the bytes are lent to the builder from caller memory whose address is `skew` mod 8
    AddBorrowed { tag: [u8; 4], len: u32, seed: u64, skew: u8 },
    /// copy missing tables from the source font built in phase 1
    CopyFromSource,
    /// copy missing tables from a corpus font
    CopyFromCorpus { font: usize },
    /// copy missing tables from a corpus font whose file sits at an address that is `skew` mod 8
    CopyFromCorpusAt { font: usize, skew: u8 },
    Contains { tag: [u8; 4] },
    CloneAndContinue,
}

#[derive(Clone, Debug, Serialize, Deserialize)]
pub struct FbTrace {
    /// tables of the source font (built first, with the builder itself)
    pub source: Vec<([u8; 4], u32, u64)>,
    pub ops: Vec<FbOp>,
    pub shuffle_seed: u64,
    /// address (mod 8) at which the source font's file is placed before it is opened and copied from
    #[serde(default)]
    pub source_skew: u8,
}

/// Caller memory at a chosen address residue: a buffer and the offset at which `len` bytes start.
struct Placed {
    buf: Vec<u8>,
    at: usize,
    len: usize,
}

impl Placed {
    fn new(data: &[u8], skew: u8) -> Placed {
        let mut buf = vec![0xA5u8; data.len() + 16];
        let base = buf.as_ptr() as usize;
        let at = (8 + skew as usize - base % 8) % 8;
        buf[at..at + data.len()].copy_from_slice(data);
        Placed { buf, at, len: data.len() }
    }
    fn slice(&self) -> &[u8] {
        &self.buf[self.at..self.at + self.len]
    }
}

pub struct FontBuilderHistory;

// `head` is the only tag the builder may touch; its look-alikes (Apple's `bhed`, case variants, neighbours in
// sort order) and every other registered tag must come back byte for byte.
const FB_TAGS: [[u8; 4]; 30] = [
    *b"head", *b"CFF ", *b"DSIG", *b"glyf", *b"loca", *b"cmap", *b"OS/2", *b"name", *b"zzzz", *b"AAAA", *b"hhea", *b"maxp", *b"post", *b"a  b",
    *b"bhed", *b"bhed", *b"HEAD", *b"Head", *b"heae", *b"heac", *b"hdmx", *b"bdat", *b"bloc", *b"CFF2", *b"sbix", *b"COLR", *b"meta", *b"IFT ", *b"IFTX", *b"~~~~",
];

fn table_bytes(seed: u64, len: u32) -> Vec<u8> {
    Rng::new(seed).bytes(len as usize)
}

fn gen_len(rng: &mut Rng) -> u32 {
    match rng.below(10) {
        0 => 0,
        1 => 1 + rng.below(3) as u32,
        2 => 11,
        3 => 12,
        4 => 54,
        5..=7 => rng.below(200) as u32,
        8 => 1000 + rng.below(5000) as u32,
        _ => 70_000 + rng.below(5) as u32,
    }
}

fn verify_image(img: &[u8], model: &BTreeMap<[u8; 4], Vec<u8>>) -> Result<(), (String, String)> {
    check_container(img).map_err(|e| ("C06.container".to_string(), e))?;
    let f = read_fonts::FontRef::new(img).map_err(|e| ("C06.opens".to_string(), format!("{e}")))?;
    let tags: Vec<[u8; 4]> = f.table_directory.table_records().iter().map(|r| r.tag().to_be_bytes()).collect();
    let want: Vec<[u8; 4]> = model.keys().copied().collect();
    if tags != want {
        return Err(("C06.tag_list".into(), format!("directory lists {:?}, expected {:?}", tags.iter().map(|t| String::from_utf8_lossy(t).to_string()).collect::<Vec<_>>(), want.iter().map(|t| String::from_utf8_lossy(t).to_string()).collect::<Vec<_>>())));
    }
    for (t, d) in model {
        let got = f.table_data(Tag::new(t)).map(|x| x.as_bytes().to_vec()).ok_or(("C06.table_lookup".to_string(), format!("table {} not found by tag", String::from_utf8_lossy(t))))?;
        let same = if t == b"head" && d.len() >= 12 { got.len() == d.len() && got[..8] == d[..8] && got[12..] == d[12..] } else { &got == d };
        if !same {
            return Err(("C06.table_bytes".into(), format!("table {} returns {} bytes that differ from the {} bytes supplied", String::from_utf8_lossy(t), got.len(), d.len())));
        }
    }
    // binary-search header fields
    let n = u16::from_be_bytes([img[4], img[5]]) as u32;
    if n as usize != model.len() {
        return Err(("C06.num_tables".into(), format!("numTables {n}, expected {}", model.len())));
    }
    if n > 0 {
        let sr = u16::from_be_bytes([img[6], img[7]]) as u32;
        let es = u16::from_be_bytes([img[8], img[9]]) as u32;
        let rs = u16::from_be_bytes([img[10], img[11]]) as u32;
        let log = 31 - n.leading_zeros();
        if sr != 16 << log || es != log || rs != n * 16 - sr {
            return Err(("C06.search_fields".into(), format!("searchRange/entrySelector/rangeShift = {sr}/{es}/{rs} for {n} tables")));
        }
    }
    Ok(())
}

impl Engine for FontBuilderHistory {
    type Trace = FbTrace;
    fn name(&self) -> &'static str {
        "fontbuilder_history"
    }
    fn rule(&self) -> &'static str {
        "case = history of add_raw (any tag incl. head/CFF /DSIG, lengths 0..70k, every length mod 4, repeated tags), copy_missing_tables (from an earlier output or a corpus font), contains, clone, build; the image is checked against a BTreeMap<Tag, bytes> model and the sfnt container invariants, and rebuilt under a shuffled insertion order; non-trivial iff a tag was overwritten or a copy met an existing tag"
    }
    fn components(&self) -> &'static str {
        "real: write_fonts::FontBuilder (add_raw, copy_missing_tables, contains, ordered_tags, clone, build), read_fonts::FontRef; model: BTreeMap<Tag, bytes>"
    }
    fn generate(&self, case_seed: u64) -> FbTrace {
        let mut rng = Rng::new(case_seed);
        let mut source = Vec::new();
        for _ in 0..rng.below(6) {
            source.push((*rng.pick(&FB_TAGS), gen_len(&mut rng), rng.next_u64()));
        }
        let mut ops = Vec::new();
        for _ in 0..(1 + rng.below(12)) {
            ops.push(match rng.below(10) {
                0..=3 => FbOp::AddRaw { tag: if rng.chance(1, 10) { [b'Q', b'0' + rng.below(10) as u8, b' ', b' '] } else { *rng.pick(&FB_TAGS) }, len: gen_len(&mut rng), seed: rng.next_u64() },
                4 | 5 => FbOp::AddBorrowed { tag: *rng.pick(&FB_TAGS), len: gen_len(&mut rng), seed: rng.next_u64(), skew: rng.below(8) as u8 },
                6 => FbOp::CopyFromSource,
                7 if rng.chance(1, 2) => FbOp::CopyFromCorpusAt { font: rng.usize_below(crate::corpus::corpus().len()), skew: rng.below(8) as u8 },
                7 => FbOp::CopyFromCorpus { font: rng.usize_below(crate::corpus::corpus().len()) },
                8 => FbOp::Contains { tag: *rng.pick(&FB_TAGS) },
                _ => FbOp::CloneAndContinue,
            });
        }
        let shuffle_seed = rng.next_u64();
        FbTrace { source, ops, shuffle_seed, source_skew: if rng.chance(1, 2) { 0 } else { rng.below(8) as u8 } }
    }
    fn execute(&self, t: &mut FbTrace, stats: &mut Stats) -> Verdict {
        let fail = |oracle: &str, detail: String| Verdict::Fail(Violation::new("C06", oracle, detail));
        // phase 1: source font
        let mut src_model: BTreeMap<[u8; 4], Vec<u8>> = BTreeMap::new();
        let mut sb = FontBuilder::new();
        for (tag, len, seed) in &t.source {
            let d = table_bytes(*seed, *len);
            sb.add_raw(Tag::new(tag), d.clone());
            src_model.insert(*tag, d);
        }
        let source_img = sb.build();
        stats.bump("oracle.C06.image_vs_model");
        if let Err((o, d)) = verify_image(&source_img, &src_model) {
            return fail(&o, format!("source font: {d}"));
        }
        let source_placed = Placed::new(&source_img, t.source_skew);
        if t.source_skew % 4 != 0 {
            stats.bump("fault.mem.source_font_at_unaligned_address");
        }
        let source_ref = match read_fonts::FontRef::new(source_placed.slice()) {
            Ok(f) => f,
            Err(e) => return fail("C06.opens", format!("source font: {e}")),
        };
        // caller memory lent to the builder lives longer than the builder
        let lent: Vec<Option<Placed>> = t
            .ops
            .iter()
            .map(|op| match op {
                FbOp::AddBorrowed { len, seed, skew, .. } => Some(Placed::new(&table_bytes(*seed, *len), *skew)),
                FbOp::CopyFromCorpusAt { font, skew } => Some(Placed::new(crate::corpus::corpus()[*font % crate::corpus::corpus().len()].data, *skew)),
                _ => None,
            })
            .collect();
        // phase 2: history
        let mut model: BTreeMap<[u8; 4], Vec<u8>> = BTreeMap::new();
        let mut b = FontBuilder::new();
        let mut nontrivial = false;
        for (i, op) in t.ops.iter().enumerate() {
            match op {
                FbOp::AddRaw { tag, len, seed } => {
                    let d = table_bytes(*seed, *len);
                    if model.contains_key(tag) {
                        nontrivial = true;
                        stats.bump("probe.C06.tag_overwritten");
                    }
                    b.add_raw(Tag::new(tag), d.clone());
                    model.insert(*tag, d);
                }
                FbOp::AddBorrowed { tag, skew, .. } => {
                    let Some(pl) = &lent[i] else { continue };
                    if model.contains_key(tag) {
                        nontrivial = true;
                        stats.bump("probe.C06.tag_overwritten");
                    }
                    if skew % 4 != 0 {
                        stats.bump("fault.mem.table_lent_from_unaligned_address");
                    }
                    b.add_raw(Tag::new(tag), pl.slice());
                    model.insert(*tag, pl.slice().to_vec());
                }
                FbOp::CopyFromCorpusAt { skew, .. } => {
                    let Some(pl) = &lent[i] else { continue };
                    if let Ok(fr) = read_fonts::FontRef::new(pl.slice()) {
                        if skew % 4 != 0 {
                            stats.bump("fault.mem.copied_font_at_unaligned_address");
                        }
                        b.copy_missing_tables(fr.clone());
                        for r in fr.table_directory.table_records() {
                            let k = r.tag().to_be_bytes();
                            if model.contains_key(&k) {
                                nontrivial = true;
                                stats.bump("probe.C06.copy_met_existing_tag");
                            } else if let Some(d) = fr.table_data(r.tag()) {
                                model.insert(k, d.as_bytes().to_vec());
                            }
                        }
                    }
                }
                FbOp::CopyFromSource => {
                    b.copy_missing_tables(source_ref.clone());
                    for (k, v) in &src_model {
                        if model.contains_key(k) {
                            nontrivial = true;
                            stats.bump("probe.C06.copy_met_existing_tag");
                        } else {
                            // what the source font returns for the tag (head carries the adjustment)
                            let got = source_ref.table_data(Tag::new(k)).map(|x| x.as_bytes().to_vec()).unwrap_or_else(|| v.clone());
                            model.insert(*k, got);
                        }
                    }
                }
                FbOp::CopyFromCorpus { font } => {
                    let cf = &crate::corpus::corpus()[*font];
                    if let Ok(fr) = read_fonts::FontRef::new(cf.data) {
                        b.copy_missing_tables(fr.clone());
                        for r in fr.table_directory.table_records() {
                            let k = r.tag().to_be_bytes();
                            if model.contains_key(&k) {
                                nontrivial = true;
                                stats.bump("probe.C06.copy_met_existing_tag");
                            } else if let Some(d) = fr.table_data(r.tag()) {
                                model.insert(k, d.as_bytes().to_vec());
                            }
                        }
                    }
                }
                FbOp::Contains { tag } => {
                    if b.contains(Tag::new(tag)) != model.contains_key(tag) {
                        return fail("C06.contains", format!("op {i}: contains({}) = {}", String::from_utf8_lossy(tag), b.contains(Tag::new(tag))));
                    }
                }
                FbOp::CloneAndContinue => {
                    b = b.clone();
                }
            }
            let ot: Vec<[u8; 4]> = b.ordered_tags().iter().map(|x| x.to_be_bytes()).collect();
            let mut sorted = ot.clone();
            sorted.sort();
            if sorted != model.keys().copied().collect::<Vec<_>>() {
                return fail("C06.ordered_tags", format!("op {i}: ordered_tags() is not a permutation of the tags added"));
            }
        }
        let img = b.build();
        stats.bump("oracle.C06.image_vs_model");
        if let Err((o, d)) = verify_image(&img, &model) {
            return fail(&o, d);
        }
        // build drains the builder
        if model.keys().any(|k| b.contains(Tag::new(k))) {
            return fail("C06.build_drains", "builder still contains tables after build".into());
        }
        // same content, shuffled insertion order
        let mut items: Vec<(&[u8; 4], &Vec<u8>)> = model.iter().collect();
        Rng::new(t.shuffle_seed).shuffle(&mut items);
        let mut b2 = FontBuilder::new();
        for (k, v) in items {
            b2.add_raw(Tag::new(k), v.clone());
        }
        let img2 = b2.build();
        stats.bump("oracle.C06.insertion_order_independent");
        if img2 != img {
            return fail("C06.insertion_order", format!("the same {} tables added in another order give different bytes ({} vs {})", model.len(), img.len(), img2.len()));
        }
        let mut d = Digest::new();
        d.bytes(&img);
        Verdict::Pass { digest: d.finish(), sig: fnv(serde_json::to_string(&(&t.source, &t.ops)).unwrap_or_default().as_bytes()), nontrivial }
    }
    fn shrink(&self, t: &FbTrace) -> Vec<FbTrace> {
        let mut out = Vec::new();
        for ops in drop_chunks(&t.ops) {
            out.push(FbTrace { ops, ..t.clone() });
        }
        for source in drop_chunks(&t.source) {
            out.push(FbTrace { source, ..t.clone() });
        }
        if t.source_skew != 0 {
            out.push(FbTrace { source_skew: 0, ..t.clone() });
        }
        for (i, op) in t.ops.iter().enumerate() {
            if let FbOp::AddRaw { tag, len, seed } = op {
                if *len > 16 {
                    let mut c = t.clone();
                    c.ops[i] = FbOp::AddRaw { tag: *tag, len: len / 2, seed: *seed };
                    out.push(c);
                }
            }
            if let FbOp::AddBorrowed { tag, len, seed, skew } = op {
                if *len > 16 {
                    let mut c = t.clone();
                    c.ops[i] = FbOp::AddBorrowed { tag: *tag, len: len / 2, seed: *seed, skew: *skew };
                    out.push(c);
                }
            }
        }
        out
    }
}
