pub mod compile;
pub mod sched;
