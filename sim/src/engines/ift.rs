//! Engines over the IFT deployment simulator (C18, C19; monitors for C02 and C06).

use crate::core::hashseed;
use crate::core::rng::{fnv, mix, Rng};
use crate::core::{drop_chunks, Engine, Stats, Verdict, Violation};
use crate::ift::sim::{self, Fault, RunPlan, Sim};
use crate::ift::world::{self, Def, Patch};
use serde::{Deserialize, Serialize};

fn gen_plan(rng: &mut Rng, with_faults: bool, glyph_only: bool, allow_wide: bool) -> RunPlan {
    let mut w = world::gen_world(rng);
    if glyph_only {
        // keep only glyph-keyed entries: order / grouping independence is stated for those
        for v in w.versions.iter_mut() {
            if v.table_format == 2 {
                for e in v.entries.iter_mut() {
                    if e.format != 3 {
                        e.ignored = true;
                    }
                }
            }
        }
    }
    let n_defs = 1 + rng.below(3) as usize;
    let mut defs: Vec<Def> = (0..n_defs).map(|_| world::gen_def(rng, w.n_glyphs)).collect();
    if rng.chance(1, 4) {
        defs.push(Def::all());
    }
    // format-1 maps whose feature records push the entry count beyond 255 while the glyph map stays below it
    // (entry indices one byte wide in the glyph map, two bytes wide in the feature map)
    if allow_wide && rng.chance(1, 10) && w.roots[0].map(|r| w.versions[r].table_format == 1 && !w.versions[r].entries.is_empty()).unwrap_or(false) {
        widen_format1(&mut w, rng);
        let tag = *rng.pick(&[*b"c2sc", *b"dlig", *b"kern", *b"liga", *b"smcp"]);
        let mut d = world::gen_def(rng, w.n_glyphs);
        d.features = Some(vec![tag]);
        defs.insert(0, d);
    }
    let probes: Vec<Def> = (0..rng.below(3)).map(|_| world::gen_def(rng, w.n_glyphs)).collect();
    let faults = if with_faults { sim::gen_faults(rng, 4) } else { vec![] };
    RunPlan { world: w, defs, probes, faults, hash_seed: rng.next_u64() | 1, atomic_persist: !with_faults || rng.chance(3, 4) }
}

fn run_plan(plan: &RunPlan, stats: &mut Stats, check_model: bool, hash_seed: u64) -> Result<sim::RunOutcome, Violation> {
    // fresh OS thread: std HashMap keys (client bookkeeping, design spaces, entry cache) from the case's hash seed
    let p = plan.clone();
    let r = hashseed::run_on_fresh_thread(hash_seed, 16 << 20, move || {
        let mut st = Stats::default();
        let out = {
            let mut s = Sim { plan: &p, stats: &mut st, check_model };
            s.run()
        };
        (out, st)
    });
    match r {
        Ok((out, st)) => {
            merge(stats, st);
            out
        }
        Err(_) => {
            // the panic hook recorded the site; let the caller's guard classify it
            std::panic::resume_unwind(Box::new("simulated client panicked"));
        }
    }
}

fn merge(into: &mut Stats, from: Stats) {
    for (k, v) in from.counters {
        *into.counters.entry(k).or_insert(0) += v;
    }
    for s in from.states {
        into.state(s);
    }
    into.sim_ticks += from.sim_ticks;
}

fn plan_sig(p: &RunPlan) -> u64 {
    fnv(serde_json::to_string(p).unwrap_or_default().as_bytes())
}

fn shrink_plan(p: &RunPlan) -> Vec<RunPlan> {
    let mut out = Vec::new();
    for f in drop_chunks(&p.faults) {
        let mut c = p.clone();
        c.faults = f;
        out.push(c);
    }
    if p.defs.len() > 1 {
        for d in drop_chunks(&p.defs) {
            if !d.is_empty() {
                let mut c = p.clone();
                c.defs = d;
                out.push(c);
            }
        }
    }
    for d in drop_chunks(&p.probes) {
        let mut c = p.clone();
        c.probes = d;
        out.push(c);
    }
    // simpler definitions
    for (i, d) in p.defs.iter().enumerate() {
        if d.cps.len() > 1 {
            for cps in drop_chunks(&d.cps) {
                let mut c = p.clone();
                c.defs[i].cps = cps;
                out.push(c);
            }
        }
        if d.features.as_ref().map(|f| !f.is_empty()).unwrap_or(true) {
            let mut c = p.clone();
            c.defs[i].features = Some(vec![]);
            out.push(c);
        }
        if d.design.as_ref().map(|f| !f.is_empty()).unwrap_or(true) {
            let mut c = p.clone();
            c.defs[i].design = Some(vec![]);
            out.push(c);
        }
    }
    // ignore entries of the root tables one at a time (keeps indices stable)
    for r in p.world.roots.iter().flatten() {
        let v = &p.world.versions[*r];
        if v.table_format != 2 {
            continue;
        }
        for (i, e) in v.entries.iter().enumerate() {
            if !e.ignored && !v.entries.iter().any(|o| o.children.contains(&i)) {
                let mut c = p.clone();
                c.world.versions[*r].entries[i].ignored = true;
                out.push(c);
            }
        }
    }
    // drop the second mapping table
    if p.world.roots[1].is_some() {
        let mut c = p.clone();
        c.world.roots[1] = None;
        out.push(c);
    }
    if p.world.has_gvar && p.world.carrier == 0 {
        let mut c = p.clone();
        c.world.has_gvar = false;
        for pt in c.world.patches.iter_mut() {
            if let Patch::Glyph { tables, .. } = pt {
                tables.retain(|t| *t != world::GVAR);
                if tables.is_empty() {
                    tables.push(world::GLYF);
                }
            }
        }
        out.push(c);
    }
    if !p.world.big_gids.is_empty() {
        let mut c = p.clone();
        c.world.big_gids.clear();
        out.push(c);
    }
    out
}

// ------------------------------------------------------------------ fault-free worlds

#[derive(Clone, Serialize, Deserialize)]
pub struct IftTrace {
    pub plan: RunPlan,
}

pub struct IftFaultFree;

impl Engine for IftFaultFree {
    type Trace = IftTrace;
    fn name(&self) -> &'static str {
        "ift_world_fault_free"
    }
    fn rule(&self) -> &'static str {
        "case = generated IFT world (base font, format-1/2 mapping tables up to depth 3, glyph- and table-keyed patches) + growing subset definitions + probe definitions, extended to fixpoint without faults; distinct by hash of the plan; non-trivial iff >=1 patch was applied and compared with the model"
    }
    fn components(&self) -> &'static str {
        "real: intersecting_patches, PatchGroup::select_next_patches/apply_next_patches_with_decoder, glyph-/table-keyed application, FontBuilder, C brotli decoder (stored meta-blocks), std HashMap with seeded keys; stub: fetch loop (re-implements ift_extend's main), patch server, IFT encoder and reference model written from the specification"
    }
    fn generate(&self, case_seed: u64) -> IftTrace {
        let mut rng = Rng::new(case_seed);
        let glyph_only = rng.chance(1, 3);
        IftTrace { plan: gen_plan(&mut rng, false, glyph_only, true) }
    }
    fn execute(&self, t: &mut IftTrace, stats: &mut Stats) -> Verdict {
        let out = match run_plan(&t.plan, stats, true, t.plan.hash_seed) {
            Ok(o) => o,
            Err(v) => return Verdict::Fail(v),
        };
        stats.bump_dyn(format!("sim.ended.{}", out.ended));
        // the same trace under the quiet hash seed must observe the same thing
        let quiet = match run_plan(&t.plan, &mut Stats::default(), false, 0) {
            Ok(o) => o,
            Err(v) => return Verdict::Fail(v),
        };
        stats.bump("oracle.C18.d.hash_seed_independent");
        if quiet.digest != out.digest {
            return Verdict::Fail(Violation::new("C18", "C18.d.hash_order_dependence", "selection or application differs between two std HashMap seeds".to_string()));
        }
        // order / grouping independence for glyph-keyed-only worlds
        let glyph_only = t.plan.world.versions.iter().all(|v| v.entries.iter().all(|e| e.format == 3 || e.ignored));
        if glyph_only && t.plan.defs.len() > 1 && out.ended == "fixpoint" {
            let mut all_at_once = t.plan.clone();
            let mut u = t.plan.defs[0].clone();
            for d in &t.plan.defs[1..] {
                u = u.union(d);
            }
            all_at_once.defs = vec![u];
            let mut reversed = t.plan.clone();
            reversed.defs.reverse();
            for (name, p) in [("all-at-once", all_at_once), ("reversed", reversed)] {
                match run_plan(&p, &mut Stats::default(), false, t.plan.hash_seed) {
                    Ok(o) => {
                        stats.bump("oracle.C18.d.order_and_grouping_independent");
                        if o.ended == "fixpoint" {
                            if let Err(e) = sim::same_tables(&o.final_font, &out.final_font) {
                                return Verdict::Fail(Violation::new("C18", "C18.d.order_independence", format!("extending {name} gives a different font: {e}")));
                            }
                        }
                    }
                    Err(v) => return Verdict::Fail(v),
                }
            }
        }
        // selection on a "twin" font: IFTX repeats IFT's partial-invalidation entries under the same URIs
        if let Some(tw) = twin_world(&t.plan.world, t.plan.hash_seed) {
            let mut tp = t.plan.clone();
            tp.world = tw;
            let font = tp.world.base_font();
            let model = tp.world.initial_model();
            let mut defs = tp.defs.clone();
            defs.extend(tp.probes.iter().cloned());
            defs.push(Def::all());
            let mut st = Stats::default();
            let r = {
                let mut s = Sim { plan: &tp, stats: &mut st, check_model: true };
                let mut res = Ok(());
                for d in &defs {
                    res = s.check_twin_selection(&font, &model, d);
                    if res.is_err() {
                        break;
                    }
                }
                res
            };
            merge(stats, st);
            if let Err(v) = r {
                return Verdict::Fail(v);
            }
        }
        let sig = plan_sig(&t.plan);
        Verdict::Pass { digest: out.digest, sig, nontrivial: !out.applied_uris.is_empty() }
    }
    fn shrink(&self, t: &IftTrace) -> Vec<IftTrace> {
        shrink_plan(&t.plan).into_iter().map(|plan| IftTrace { plan }).collect()
    }
}

/// A copy of the world whose IFTX root repeats the partial-invalidation entries of its IFT root (same
/// template and ids, hence the same URIs) and adds one or two of its own.
fn twin_world(w: &world::World, seed: u64) -> Option<world::World> {
    let r0 = w.roots[0]?;
    let v0 = &w.versions[r0];
    if v0.table_format != 2 || !v0.entries.iter().any(|e| e.format == 2 && !e.ignored) {
        return None;
    }
    let mut rng = Rng::new(seed ^ 0x7717);
    let table_patch = v0.entries.iter().find(|e| e.format == 2).map(|e| e.patch)?;
    let mut tw = w.clone();
    let mut v1 = v0.clone();
    for b in v1.compat.iter_mut() {
        *b ^= 0x5a;
    }
    for e in v1.entries.iter_mut() {
        if e.format != 2 {
            e.ignored = true;
        }
    }
    // in the IFT table keep everything but fully invalidating entries
    for e in tw.versions[r0].entries.iter_mut() {
        if e.format == 1 {
            e.ignored = true;
        }
    }
    let max_id = v1.entries.iter().filter_map(|e| if let world::EntryId::Num(n) = e.id { Some(n) } else { None }).max();
    for k in 0..(1 + rng.below(2)) {
        let mut e = v1.entries.iter().find(|e| e.format == 2).cloned()?;
        e.ignored = false;
        e.children.clear();
        e.cps = (0..1 + rng.below(6)).map(|_| 0x100 + rng.below(w.n_glyphs as u64) as u32).collect();
        e.cps.sort_unstable();
        e.cps.dedup();
        e.cp_mode = 1;
        e.bias = 0;
        e.id = match (&e.id, max_id) {
            (world::EntryId::Num(_), Some(m)) => world::EntryId::Num(m + 1 + k as u32),
            _ => world::EntryId::Str(format!("twin{k}").into_bytes()),
        };
        e.patch = table_patch;
        v1.entries.push(e);
    }
    tw.versions.push(v1);
    tw.roots[1] = Some(tw.versions.len() - 1);
    Some(tw)
}

// ------------------------------------------------------------------ faulty worlds

pub struct IftFaulty;

impl Engine for IftFaulty {
    type Trace = IftTrace;
    fn name(&self) -> &'static str {
        "ift_world_faults"
    }
    fn rule(&self) -> &'static str {
        "case = IFT world + definitions + 1-3 faults (response drop/404/duplicate/delay/truncation/header corruption/bit flip/stale response, decoder failure at call k, crash at 3 points, torn or lost persist); distinct by hash of the plan; non-trivial iff >=1 fault fired and >=1 oracle comparison ran after it"
    }
    fn components(&self) -> &'static str {
        "real: IFT client selection and application, FontBuilder, C brotli decoder behind a fault-injecting wrapper; stub: fetch loop with retry policy, network, server, disk (atomic or in-place persist), reference model"
    }
    fn generate(&self, case_seed: u64) -> IftTrace {
        let mut rng = Rng::new(case_seed);
        IftTrace { plan: gen_plan(&mut rng, true, false, true) }
    }
    fn execute(&self, t: &mut IftTrace, stats: &mut Stats) -> Verdict {
        let mut clean = t.plan.clone();
        clean.faults.clear();
        let reference = match run_plan(&clean, &mut Stats::default(), false, 0) {
            Ok(o) => o,
            Err(v) => return Verdict::Fail(v),
        };
        let before_faults: u64 = stats.counters.iter().filter(|(k, _)| k.starts_with("fault.")).map(|(_, v)| *v).sum();
        let out = match run_plan(&t.plan, stats, true, t.plan.hash_seed) {
            Ok(o) => o,
            Err(v) => return Verdict::Fail(v),
        };
        let fired: u64 = stats.counters.iter().filter(|(k, _)| k.starts_with("fault.")).map(|(_, v)| *v).sum::<u64>() - before_faults;
        stats.bump_dyn(format!("sim.ended.{}", out.ended));
        let shared_and_crashed = crashy(&t.plan.faults) && has_shared_uris(&t.plan.world);
        if shared_and_crashed {
            stats.bump("sim.final_comparison_skipped_shared_uri_and_restart");
        }
        if !out.tainted && out.ended == reference.ended && out.ended != "gave_up" && !shared_and_crashed {
            stats.bump("oracle.C18.d.final_equals_fault_free_run");
            if let Err(e) = sim::same_tables(&out.final_font, &reference.final_font) {
                return Verdict::Fail(Violation::new("C18", "C18.d.final_differs_from_fault_free_run", format!("after faults {:?} the extension ended with a different font: {e}", t.plan.faults)));
            }
        } else if !out.tainted && out.ended != reference.ended && out.ended != "gave_up" && !crashy(&t.plan.faults) {
            return Verdict::Fail(Violation::new("C18", "C18.d.final_differs_from_fault_free_run", format!("fault-free run ended '{}', run with recoverable faults {:?} ended '{}'", reference.ended, t.plan.faults, out.ended)));
        }
        Verdict::Pass { digest: mix(out.digest, reference.digest), sig: plan_sig(&t.plan), nontrivial: fired > 0 }
    }
    fn shrink(&self, t: &IftTrace) -> Vec<IftTrace> {
        shrink_plan(&t.plan).into_iter().map(|plan| IftTrace { plan }).collect()
    }
}

// ------------------------------------------------------------------ exhaustive decoder faults

pub struct IftDecoderEnum;

#[derive(Clone, Serialize, Deserialize)]
pub struct EnumTrace {
    pub plan: RunPlan,
    /// restrict to one (round, call, kind) when replaying a minimised failure
    #[serde(default)]
    pub only: Option<(u32, u32, u8)>,
}

impl Engine for IftDecoderEnum {
    type Trace = EnumTrace;
    fn name(&self) -> &'static str {
        "ift_decoder_fault_enumeration"
    }
    fn rule(&self) -> &'static str {
        "case = IFT world + definitions; inside the case the decoder is failed at EVERY call index of EVERY round with EVERY error kind (exhaustive per case), each as a separate simulated run; distinct by hash of the plan; non-trivial iff >=1 decoder fault fired"
    }
    fn components(&self) -> &'static str {
        "real: IFT client, C brotli decoder behind the SharedBrotliDecoder seam; stub: fetch loop, server, reference model"
    }
    fn generate(&self, case_seed: u64) -> EnumTrace {
        let mut rng = Rng::new(case_seed);
        // hundreds of decoder calls per round would make the exhaustive (round, call, kind) enumeration explode
        EnumTrace { plan: gen_plan(&mut rng, false, false, false), only: None }
    }
    fn execute(&self, t: &mut EnumTrace, stats: &mut Stats) -> Verdict {
        let reference = match run_plan(&t.plan, &mut Stats::default(), false, 0) {
            Ok(o) => o,
            Err(v) => return Verdict::Fail(v),
        };
        let mut fired_total = 0u64;
        let mut d = crate::core::rng::Digest::new();
        let combos: Vec<(u32, u32, u8)> = match t.only {
            Some(c) => vec![c],
            None => {
                let mut v = Vec::new();
                for (r, calls) in reference.decoder_calls_per_round.iter().enumerate() {
                    for k in 0..*calls {
                        for kind in 0..6u8 {
                            v.push((r as u32, k, kind));
                        }
                    }
                }
                v
            }
        };
        for (r, k, kind) in combos {
            let mut p = t.plan.clone();
            p.faults = vec![Fault::DecoderFail { round: r, call: k, kind }];
            let before = *stats.counters.get("fault.decoder.fail_at_call").unwrap_or(&0);
            let out = match run_plan(&p, stats, true, t.plan.hash_seed) {
                Ok(o) => o,
                Err(mut v) => {
                    v.detail = format!("decoder failing call {k} of round {r} with kind {kind}: {}", v.detail);
                    t.only = Some((r, k, kind));
                    return Verdict::Fail(v);
                }
            };
            let fired = *stats.counters.get("fault.decoder.fail_at_call").unwrap_or(&0) - before;
            fired_total += fired;
            stats.bump("oracle.C18.c.retry_equals_fault_free");
            if out.ended == reference.ended {
                if let Err(e) = sim::same_tables(&out.final_font, &reference.final_font) {
                    t.only = Some((r, k, kind));
                    return Verdict::Fail(Violation::new("C18", "C18.c.retry_differs_from_fault_free", format!("decoder failing call {k} of round {r} (kind {kind}), then retried: {e}")));
                }
            } else {
                t.only = Some((r, k, kind));
                return Verdict::Fail(Violation::new("C18", "C18.c.retry_differs_from_fault_free", format!("decoder failing call {k} of round {r} (kind {kind}): run ended '{}' instead of '{}'", out.ended, reference.ended)));
            }
            d.u64(out.digest);
        }
        if reference.decoder_calls_per_round.iter().any(|c| *c >= 3) {
            stats.bump("probe.C18.decoder_failed_inside_multi_patch_group");
        }
        Verdict::Pass { digest: d.finish(), sig: plan_sig(&t.plan), nontrivial: fired_total > 0 }
    }
    fn shrink(&self, t: &EnumTrace) -> Vec<EnumTrace> {
        shrink_plan(&t.plan).into_iter().map(|plan| EnumTrace { plan, only: t.only }).collect()
    }
}

/// A restart loses the client's bookkeeping; with URIs shared between entries the extension may then
/// legitimately end differently (a URI counted as applied before is fetched and applied again).
fn crashy(faults: &[Fault]) -> bool {
    faults.iter().any(|f| matches!(f, Fault::Crash { .. } | Fault::TornPersist { .. } | Fault::LostPersist { .. }))
}

fn has_shared_uris(w: &world::World) -> bool {
    w.versions.iter().any(|v| {
        let mut seen = std::collections::BTreeSet::new();
        v.entries.iter().any(|e| !seen.insert(format!("{:?}", e.id)))
    })
}

// ------------------------------------------------------------------ hostile mapping tables and patches (C02 only)

use crate::engines::images::{apply_fault, gen_fault, ImgFault};

#[derive(Clone, Serialize, Deserialize)]
pub struct HostileTrace {
    pub world: world::World,
    /// faults on the payload of the mapping table in slot 0 / 1 of the base font
    pub map_faults: Vec<(usize, ImgFault)>,
    /// faults on patch bytes, by fetch order
    pub patch_faults: Vec<(u32, ImgFault)>,
    pub defs: Vec<Def>,
    pub hash_seed: u64,
    /// faults on the glyph offset arrays of the base font (loca, charstrings INDEX, gvar)
    #[serde(default)]
    pub carrier_faults: Vec<OffsetFault>,
}

/// One entry of a glyph offset array of the stored base font rewritten.
/// table: 0 = outline offsets (loca / charstrings INDEX of CFF or CFF2), 1 = gvar glyph variation data offsets.
/// idx: entry (u32::MAX = last, u32::MAX - 1 = last but one). mode: 0 flip bit `arg`, 1 swap with the next
/// entry, 2 := 0, 3 := half, 4 := all ones, 5 := one below the previous entry, 6 := previous entry.
#[derive(Clone, Debug, Serialize, Deserialize)]
pub struct OffsetFault {
    pub table: u8,
    pub idx: u32,
    pub mode: u8,
    pub arg: u32,
}

/// (tag, position of the first entry, entry size, number of entries) of the offset array `table` in `font`
fn offset_array(font: &read_fonts::FontRef, w: &world::World, table: u8) -> Option<([u8; 4], usize, usize, usize)> {
    use read_fonts::types::Tag;
    if table == 1 {
        let g = font.table_data(Tag::new(b"gvar"))?;
        let g = g.as_bytes();
        if g.len() < 20 {
            return None;
        }
        let n = u16::from_be_bytes([g[12], g[13]]) as usize;
        let size = if g[15] & 1 == 1 { 4 } else { 2 };
        return Some((*b"gvar", 20, size, n + 1));
    }
    match w.carrier {
        0 => {
            let head = font.table_data(Tag::new(b"head"))?;
            let loca = font.table_data(Tag::new(b"loca"))?;
            let size = if head.as_bytes().get(51) == Some(&1) { 4 } else { 2 };
            Some((*b"loca", 0, size, loca.len() / size))
        }
        c => {
            let tag = if c == 1 { *b"CFF " } else { *b"CFF2" };
            let t = font.table_data(Tag::new(&tag))?;
            let t = t.as_bytes();
            let at = world::cff_prefix(c).len();
            let (n, hdr) = if c == 1 { (u16::from_be_bytes([*t.get(at)?, *t.get(at + 1)?]) as usize, 2) } else { (u32::from_be_bytes([*t.get(at)?, *t.get(at + 1)?, *t.get(at + 2)?, *t.get(at + 3)?]) as usize, 4) };
            let size = *t.get(at + hdr)? as usize;
            if n == 0 || !(1..=4).contains(&size) {
                return None;
            }
            Some((tag, at + hdr + 1, size, n + 1))
        }
    }
}

fn apply_offset_fault(bytes: &mut [u8], first: usize, size: usize, n: usize, f: &OffsetFault) -> bool {
    if n == 0 || first + n * size > bytes.len() {
        return false;
    }
    let idx = match f.idx {
        u32::MAX => n - 1,
        x if x == u32::MAX - 1 => n.saturating_sub(2),
        x => x as usize % n,
    };
    let rd = |b: &[u8], i: usize| -> u64 { b[first + i * size..first + (i + 1) * size].iter().fold(0u64, |a, x| (a << 8) | *x as u64) };
    let mask: u64 = if size == 4 { 0xFFFF_FFFF } else { (1u64 << (8 * size)) - 1 };
    let cur = rd(bytes, idx);
    let new = match f.mode {
        0 => cur ^ (1 << (f.arg as usize % (8 * size))),
        1 => {
            if idx + 1 >= n {
                return false;
            }
            let nx = rd(bytes, idx + 1);
            let (a, b) = (first + idx * size, first + (idx + 1) * size);
            for k in 0..size {
                bytes[b + k] = (cur >> (8 * (size - 1 - k))) as u8;
                bytes[a + k] = (nx >> (8 * (size - 1 - k))) as u8;
            }
            return nx != cur;
        }
        2 => 0,
        3 => cur / 2,
        4 => mask,
        5 => {
            if idx == 0 {
                return false;
            }
            rd(bytes, idx - 1).wrapping_sub(1) & mask
        }
        _ => {
            if idx == 0 {
                return false;
            }
            rd(bytes, idx - 1)
        }
    };
    let a = first + idx * size;
    for k in 0..size {
        bytes[a + k] = (new >> (8 * (size - 1 - k))) as u8;
    }
    new != cur
}

pub struct IftHostile;

fn widen_format1(w: &mut world::World, rng: &mut Rng) {
    // give a format-1 root table more than 255 entries (two-byte entry indices) through feature records
    let Some(r) = w.roots[0] else { return };
    if w.versions[r].table_format != 1 {
        return;
    }
    let tags: [[u8; 4]; 5] = [*b"c2sc", *b"dlig", *b"kern", *b"liga", *b"smcp"];
    let per = 52 + rng.below(20) as usize;
    let maxg = w.versions[r].f1_max_glyph_entry;
    let mut feats = Vec::new();
    for t in tags {
        let recs: Vec<(u16, u16)> = (0..per)
            .map(|_| {
                let a = rng.below(maxg as u64 + 1) as u16;
                let b = rng.below(maxg as u64 + 1) as u16;
                (a.min(b), a.max(b))
            })
            .collect();
        feats.push((t, recs));
    }
    let template = w.versions[r].entries.first().cloned();
    let Some(template) = template else { return };
    let glyph_entries = maxg as usize;
    w.versions[r].entries.truncate(glyph_entries);
    w.versions[r].f1_features = feats;
    for i in 0..(per * 5) {
        let mut e = template.clone();
        e.id = world::EntryId::Num((glyph_entries + i + 1) as u32);
        w.versions[r].entries.push(e);
    }
}

impl Engine for IftHostile {
    type Trace = HostileTrace;
    fn name(&self) -> &'static str {
        "ift_hostile_tables_and_patches"
    }
    fn rule(&self) -> &'static str {
        "case = generated IFT world (sometimes with a format-1 map of more than 255 entries) whose base font's mapping tables suffer 1-3 storage faults (short read, bit flip, zeroed/duplicated/shifted sector, slot overwrite, extreme field) and whose fetched patches may be faulted too; then intersection, selection and up to 3 apply rounds for several definitions (including feature sets that skip feature records); judged by totality only; non-trivial iff a fault landed"
    }
    fn components(&self) -> &'static str {
        "real: IFT client (patch map reading, intersection, selection, glyph-/table-keyed application, C brotli decoder); stub: server, fault injector"
    }
    fn generate(&self, case_seed: u64) -> HostileTrace {
        let mut rng = Rng::new(case_seed);
        let mut w = world::gen_world(&mut rng);
        if rng.chance(1, 3) {
            widen_format1(&mut w, &mut rng);
        }
        let n = 1 + rng.below(3);
        let mut map_faults: Vec<(usize, ImgFault)> = (0..n).map(|_| (rng.usize_below(2), gen_fault(&mut rng, 400, false))).collect();
        if rng.chance(1, 2) {
            // a short read that lands in the tail of the table (feature / entry-map records, id strings)
            let len = w.roots[0].map(|r| w.map_table_bytes(r, &Default::default()).len()).unwrap_or(64) as u64;
            map_faults.push((0, ImgFault::Truncate { at: (len - rng.below(len / 2 + 1)) as u32 }));
        }
        let patch_faults = (0..rng.below(3)).map(|_| (rng.below(4) as u32, gen_fault(&mut rng, 300, false))).collect();
        let mut defs: Vec<Def> = (0..2).map(|_| world::gen_def(&mut rng, w.n_glyphs)).collect();
        // feature sets that make the feature-map walk skip earlier records
        defs.push(Def { cps: vec![], inverted: true, features: Some(vec![*rng.pick(&[*b"smcp", *b"\0\0\0\0", *b"zzzz", *b"liga"])]), design: None });
        defs.push(Def::all());
        let hash_seed = rng.next_u64() | 1;
        // half of the cases leave the mapping tables alone and damage the glyph offset arrays instead / as well
        let mut carrier_faults = Vec::new();
        if rng.chance(1, 2) {
            for _ in 0..1 + rng.below(2) {
                let (r1, r2) = (rng.next_u32(), rng.next_u32());
                carrier_faults.push(OffsetFault { table: if rng.chance(1, 4) { 1 } else { 0 }, idx: *rng.pick(&[u32::MAX, u32::MAX, u32::MAX - 1, 0, 1, r1, r2]), mode: rng.below(7) as u8, arg: rng.next_u32() });
            }
            if rng.chance(1, 2) {
                map_faults.clear();
            }
        }
        HostileTrace { world: w, map_faults, patch_faults, defs, hash_seed, carrier_faults }
    }
    fn execute(&self, t: &mut HostileTrace, stats: &mut Stats) -> Verdict {
        use incremental_font_transfer::patch_group::{PatchGroup, UriStatus};
        use incremental_font_transfer::patchmap::intersecting_patches;
        use read_fonts::{types::Tag, FontRef};
        let base = t.world.base_font();
        let Ok(fr) = FontRef::new(&base) else { return Verdict::Inconclusive("base font does not open".into()) };
        let mut b = write_fonts::FontBuilder::new();
        let mut landed = false;
        for slot in 0..2 {
            let tag = Tag::new(if slot == 0 { b"IFT " } else { b"IFTX" });
            let Some(data) = fr.table_data(tag) else { continue };
            let mut payload = data.as_bytes().to_vec();
            for (s, f) in &t.map_faults {
                if *s == slot && apply_fault(&mut payload, None, f) {
                    landed = true;
                    stats.bump("fault.ift.mapping_table_corrupted");
                }
            }
            b.add_raw(tag, payload);
        }
        let mut damaged: std::collections::BTreeMap<[u8; 4], Vec<u8>> = Default::default();
        for cf in &t.carrier_faults {
            let Some((tag, first, size, n)) = offset_array(&fr, &t.world, cf.table) else { continue };
            let bytes = damaged.entry(tag).or_insert_with(|| fr.table_data(Tag::new(&tag)).map(|d| d.as_bytes().to_vec()).unwrap_or_default());
            if apply_offset_fault(bytes, first, size, n, cf) {
                landed = true;
                stats.bump("fault.ift.base_font_glyph_offset_entry_rewritten");
            }
        }
        for (tag, bytes) in damaged {
            b.add_raw(Tag::new(&tag), bytes);
        }
        b.copy_missing_tables(fr);
        let font0 = b.build();
        let server = sim::server_index(&t.world);
        let all: Vec<String> = server.keys().cloned().collect();
        let defs = t.defs.clone();
        let world = t.world.clone();
        let pf = t.patch_faults.clone();
        let digest = hashseed::run_on_fresh_thread(t.hash_seed, 16 << 20, move || {
            let mut d = crate::core::rng::Digest::new();
            let dec = sim::SimDecoder::new();
            for def in &defs {
                let rd = sim::real_def(def);
                let mut font = font0.clone();
                let mut book: std::collections::HashMap<String, UriStatus> = std::collections::HashMap::new();
                let mut fetch_no = 0u32;
                for _round in 0..3 {
                    let Ok(f) = FontRef::new(&font) else { break };
                    match intersecting_patches(&f, &rd) {
                        Ok(v) => {
                            d.u64(v.len() as u64);
                            for p in v.iter().take(50) {
                                d.u64(p.uri_string().map(|s| s.len() as u64).unwrap_or(0));
                            }
                        }
                        Err(_) => d.u64(0xe),
                    }
                    let Ok(group) = PatchGroup::select_next_patches(f, &rd) else {
                        d.u64(0xf);
                        break;
                    };
                    if !group.has_uris() {
                        break;
                    }
                    let uris: Vec<String> = group.uris().map(|s| s.to_string()).collect();
                    for u in &uris {
                        if book.contains_key(u) {
                            continue;
                        }
                        // unknown URIs (corrupted ids/templates) get some other patch of the world
                        let (v, e) = server.get(u).copied().unwrap_or_else(|| if all.is_empty() { (0, 0) } else { server[&all[fetch_no as usize % all.len()]] });
                        if world.versions.get(v).map(|x| x.entries.len() > e).unwrap_or(false) {
                            let mut body = world.patch_bytes(v, e);
                            for (k, f) in &pf {
                                if *k == fetch_no {
                                    apply_fault(&mut body, None, f);
                                }
                            }
                            book.insert(u.clone(), UriStatus::Pending(body));
                        }
                        fetch_no += 1;
                    }
                    dec.reset(None);
                    match group.apply_next_patches_with_decoder(&mut book, &dec) {
                        Ok(nf) => {
                            d.u64(nf.len() as u64);
                            font = nf;
                        }
                        Err(_) => {
                            d.u64(0xa);
                            break;
                        }
                    }
                }
            }
            d.finish()
        });
        let digest = match digest {
            Ok(d) => d,
            Err(_) => std::panic::resume_unwind(Box::new("IFT client panicked")),
        };
        stats.bump("oracle.C02.total_ift_client");
        Verdict::Pass { digest, sig: fnv(serde_json::to_string(&(&t.map_faults, &t.patch_faults, &t.carrier_faults.iter().map(|f| (f.table, f.idx, f.mode, f.arg)).collect::<Vec<_>>(), &t.defs, &t.world.data_seed)).unwrap_or_default().as_bytes()), nontrivial: landed }
    }
    fn shrink(&self, t: &HostileTrace) -> Vec<HostileTrace> {
        let mut out = Vec::new();
        for f in drop_chunks(&t.map_faults) {
            out.push(HostileTrace { map_faults: f, ..t.clone() });
        }
        for f in drop_chunks(&t.patch_faults) {
            out.push(HostileTrace { patch_faults: f, ..t.clone() });
        }
        for f in drop_chunks(&t.carrier_faults) {
            out.push(HostileTrace { carrier_faults: f, ..t.clone() });
        }
        for f in drop_chunks(&t.defs) {
            if !f.is_empty() {
                out.push(HostileTrace { defs: f, ..t.clone() });
            }
        }
        out
    }
}
