//! Greedy minimiser over the engine's shrink candidates: accept a candidate only
//! if the same violation class persists.

use super::{Scenario, Stats, Verdict, Violation};
use serde_json::Value;
use std::time::{Duration, Instant};

pub struct MinResult {
    pub trace: Value,
    pub violation: Violation,
    pub attempts: u64,
    pub accepted: u64,
}

pub fn minimize(
    sc: &dyn Scenario,
    trace: Value,
    violation: Violation,
    map_prop: &dyn Fn(&mut Violation),
    max_attempts: u64,
    max_time: Duration,
) -> MinResult {
    let start = Instant::now();
    let key = violation.class_key();
    let mut cur = trace;
    let mut cur_v = violation;
    let mut attempts = 0u64;
    let mut accepted = 0u64;
    let mut scratch = Stats::default();
    'outer: loop {
        let cands = sc.shrink(&cur);
        if cands.is_empty() {
            break;
        }
        for c in cands {
            if attempts >= max_attempts || start.elapsed() > max_time {
                break 'outer;
            }
            attempts += 1;
            let (v, completed) = sc.run_trace(&c, &mut scratch);
            if let Verdict::Fail(mut nv) = v {
                map_prop(&mut nv);
                if nv.class_key() == key {
                    cur = completed;
                    cur_v = nv;
                    accepted += 1;
                    continue 'outer;
                }
            }
        }
        break;
    }
    MinResult { trace: cur, violation: cur_v, attempts, accepted }
}
