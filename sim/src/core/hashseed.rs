//! Seam S2: std's HashMap keys come from `getrandom(2)` through libc's symbol;
//! defining the symbol in this binary puts every RandomState under seed control.
//! Keys are cached per OS thread by std, so each simulated run that depends on
//! hash order executes on a fresh OS thread (`run_on_fresh_thread`).

use std::sync::atomic::{AtomicU64, Ordering};

static HASH_SEED: AtomicU64 = AtomicU64::new(0);
static CALLS: AtomicU64 = AtomicU64::new(0);
pub static TOTAL_CALLS: AtomicU64 = AtomicU64::new(0);

pub fn set_hash_seed(seed: u64) {
    HASH_SEED.store(seed, Ordering::SeqCst);
    CALLS.store(0, Ordering::SeqCst);
}

/// # Safety
/// Called by libc users with a valid buffer of `len` bytes.
#[no_mangle]
pub unsafe extern "C" fn getrandom(buf: *mut u8, len: usize, _flags: u32) -> isize {
    let seed = HASH_SEED.load(Ordering::SeqCst);
    let call = CALLS.fetch_add(1, Ordering::SeqCst);
    TOTAL_CALLS.fetch_add(1, Ordering::SeqCst);
    let mut r = crate::core::rng::Rng::new(crate::core::rng::mix(seed, call));
    for i in 0..len {
        let b = if seed == 0 { 0u8 } else { (r.next_u64() & 0xff) as u8 };
        *buf.add(i) = b;
    }
    len as isize
}

/// Runs `f` on a new OS thread with the given hash seed and stack size and
/// returns its result (or the panic payload).
pub fn run_on_fresh_thread<T: Send + 'static>(
    hash_seed: u64,
    stack: usize,
    f: impl FnOnce() -> T + Send + 'static,
) -> std::thread::Result<T> {
    set_hash_seed(hash_seed);
    let h = std::thread::Builder::new()
        .stack_size(stack)
        .spawn(f)
        .expect("spawn");
    h.join()
}

/// Observes the iteration order of a std HashMap created now on this thread:
/// used by the selftest to show the seam is effective.
pub fn probe_order() -> Vec<u32> {
    let mut m = std::collections::HashMap::new();
    for i in 0..32u32 {
        m.insert(i, ());
    }
    m.keys().copied().collect()
}
