//! C02 / C20: every TrueType instruction executed with operands at the integer limits.
//!
//! Bit flips in real programs reach extreme operands only by luck. Here the simulator writes the
//! program: a few instruction units (operands, opcode), each operand assembled on the interpreter's own
//! stack to an exact 32-bit value (PUSHW/MUL/ADD), earlier units acting as state setters (zone pointers,
//! reference points, vectors, round state, cut-ins, loop count, twilight coordinates) for the last one.
//! The program runs as the glyph program, as the control-value program or inside a function, at a sampled
//! size, in both pedantic modes. Judged by totality (C02) and, in the strict build, by the absence of
//! overflow panics (C20).

use crate::core::rng::{fnv, Digest, Rng};
use crate::core::{drop_chunks, Engine, Stats, Verdict};
use crate::engines::drawhist::{engine_of, target_of, Recording};
use serde::{Deserialize, Serialize};
use skrifa::instance::{LocationRef, Size};
use skrifa::outline::{DrawSettings, HintingInstance, HintingOptions};
use skrifa::raw::FontRef;
use skrifa::{GlyphId, MetadataProvider};

#[derive(Clone, Debug, Serialize, Deserialize, PartialEq)]
pub struct Unit {
    pub operands: Vec<i32>,
    pub opcode: u8,
    /// bytes following the opcode in the instruction stream (push instructions)
    pub inline: Vec<u8>,
}

#[derive(Clone, Debug, Serialize, Deserialize)]
pub struct HintTrace {
    pub units: Vec<Unit>,
    /// 0 glyph program, 1 control-value program, 2 function called from the glyph program
    pub place: u8,
    /// ppem * 4
    pub size_q: u32,
    pub target: u8,
    pub cvt: Vec<i16>,
}

const PUSHW1: u8 = 0xB8;
const MUL: u8 = 0x63;
const ADD: u8 = 0x60;

fn pushw(v: i16) -> Vec<u8> {
    let b = v.to_be_bytes();
    vec![PUSHW1, b[0], b[1]]
}

/// Instruction bytes that leave exactly `v` on the stack.
pub fn push_i32(v: i32) -> Vec<u8> {
    if (-32768..=32767).contains(&v) {
        return pushw(v as i16);
    }
    let hi = (v >> 16) as i16;
    let lo = (v & 0xFFFF) as u32;
    let mut o = Vec::new();
    // hi * 16384 / 64 = hi * 256; again = hi * 65536 (MUL is a 26.6 multiply)
    o.extend(pushw(hi));
    o.extend(pushw(0x4000));
    o.push(MUL);
    o.extend(pushw(0x4000));
    o.push(MUL);
    if lo != 0 {
        let a = (lo / 2) as i16;
        let b = (lo - lo / 2) as u16;
        o.extend(pushw(a));
        o.push(ADD);
        if b <= 32767 {
            o.extend(pushw(b as i16));
            o.push(ADD);
        } else {
            o.extend(pushw(32767));
            o.push(ADD);
            o.extend(pushw((b - 32767) as i16));
            o.push(ADD);
        }
    }
    o
}

fn assemble(units: &[Unit]) -> Vec<u8> {
    let mut p = Vec::new();
    for u in units {
        for v in &u.operands {
            p.extend(push_i32(*v));
        }
        p.push(u.opcode);
        p.extend_from_slice(&u.inline);
    }
    p
}

const EXTREMES: [i32; 18] = [i32::MIN, i32::MIN + 1, i32::MIN + 63, -0x4000_0000, -65536, -64, -1, 0, 1, 63, 64, 0x3FFF, 0x7FFF, 0x1_0000, 0x4000_0000, i32::MAX - 63, i32::MAX - 1, i32::MAX];

/// Opcodes that set graphics state (vectors, zone and reference pointers, loop, cut-ins, round state, deltas'
/// base and shift, twilight writes): earlier units are drawn from these more often.
const SETTERS: [u8; 40] = [
    0x00, 0x01, 0x02, 0x03, 0x04, 0x05, 0x06, 0x07, 0x08, 0x09, 0x0A, 0x0B, 0x0E, 0x10, 0x11, 0x12, 0x13, 0x14, 0x15, 0x16, 0x17, 0x18, 0x19, 0x1A, 0x1D, 0x1E, 0x1F, 0x3D, 0x4D, 0x4E, 0x5E, 0x5F, 0x76, 0x77, 0x7A, 0x7C, 0x7D, 0x48, 0x42,
    0x44,
];

fn gen_unit(rng: &mut Rng, setter: bool) -> Unit {
    let opcode = if setter && rng.chance(2, 3) { *rng.pick(&SETTERS) } else { rng.below(256) as u8 };
    let n = *rng.pick(&[0usize, 1, 1, 2, 2, 3, 3, 4, 5, 6]);
    let mut operands = Vec::new();
    for k in 0..n {
        // binary operations meet their worst cases when both operands sit at the same limit
        if k > 0 && rng.chance(1, 4) {
            let prev = operands[k - 1];
            operands.push(prev);
            continue;
        }
        operands.push(match rng.below(10) {
            0..=4 => *rng.pick(&EXTREMES),
            // small values: point, zone, cvt, storage and function indices
            5..=7 => rng.below(7) as i32,
            8 => rng.below(300) as i32 - 150,
            _ => rng.next_u32() as i32,
        });
    }
    let inline = match opcode {
        0x40 => {
            let k = rng.below(4) as u8;
            let mut v = vec![k];
            v.extend(rng.bytes(k as usize));
            v
        }
        0x41 => {
            let k = rng.below(3) as u8;
            let mut v = vec![k];
            v.extend(rng.bytes(2 * k as usize));
            v
        }
        0xB0..=0xB7 => rng.bytes((opcode - 0xB0 + 1) as usize),
        0xB8..=0xBF => rng.bytes(2 * (opcode - 0xB8 + 1) as usize),
        _ => vec![],
    };
    Unit { operands, opcode, inline }
}

pub struct HintOps;

impl Engine for HintOps {
    type Trace = HintTrace;
    fn name(&self) -> &'static str {
        "hint_opcode_operand_extremes"
    }
    fn rule(&self) -> &'static str {
        "case = a generated TrueType program of 1-4 instruction units (0-6 operands each, half of them at the 32-bit limits and assembled exactly on the interpreter's stack, any opcode; earlier units biased to state-setting instructions) placed in the glyph program, the control-value program or a function of a synthetic font, run by the interpreter at a sampled size and target in both pedantic modes; judged by totality (and by overflow panics in the strict build); non-trivial iff the hinting instance could be created"
    }
    fn components(&self) -> &'static str {
        "real: skrifa HintingInstance (fpgm/prep execution), TrueType interpreter, glyf scaler, write-fonts (font assembly); stub: program generator"
    }
    fn generate(&self, case_seed: u64) -> HintTrace {
        let mut rng = Rng::new(case_seed);
        let n = 1 + rng.below(4) as usize;
        let units = (0..n).map(|i| gen_unit(&mut rng, i + 1 < n)).collect();
        let size_q = match rng.below(8) {
            0 => 0,
            1 => 4 * 7,
            2 | 3 => 4 * 16,
            4 => 4 * 300,
            5 => 4 * 20_000,
            6 => 4 * 600_000,
            _ => rng.below(4 * 2000) as u32,
        };
        let cvt = (0..rng.below(6)).map(|_| *rng.pick(&[0i16, 1, -1, 64, 700, i16::MAX, i16::MIN])).collect();
        HintTrace { units, place: rng.below(3) as u8, size_q, target: rng.below(7) as u8, cvt }
    }
    fn execute(&self, t: &mut HintTrace, stats: &mut Stats) -> Verdict {
        let prog = assemble(&t.units);
        let (glyph_prog, fpgm, prep): (Vec<u8>, Vec<u8>, Vec<u8>) = match t.place {
            0 => (prog, vec![], vec![]),
            1 => (vec![], vec![], prog),
            _ => {
                // FDEF 1 ... ENDF in the font program; the glyph calls it
                let mut f = pushw(1);
                f.push(0x2C);
                f.extend(prog);
                f.push(0x2D);
                let mut g = pushw(1);
                g.push(0x2B);
                (g, f, vec![])
            }
        };
        let font_bytes = crate::synth::build_custom(&glyph_prog, &fpgm, &prep, &t.cvt);
        let Ok(font) = FontRef::new(&font_bytes) else { return Verdict::Inconclusive("synthetic font does not open".into()) };
        let outlines = font.outline_glyphs();
        let size = if t.size_q == 0 { Size::unscaled() } else { Size::new(t.size_q as f32 / 4.0) };
        let mut d = Digest::new();
        let inst = HintingInstance::new(&outlines, size, LocationRef::default(), HintingOptions { engine: engine_of(0), target: target_of(t.target) });
        stats.bump("oracle.C02.total_hint_program");
        let ok = inst.is_ok();
        d.u64(ok as u64);
        if let (Ok(inst), Some(glyph)) = (&inst, outlines.get(GlyphId::new(1))) {
            for pedantic in [false, true] {
                let mut rec = Recording::default();
                let r = glyph.draw(DrawSettings::hinted(inst, pedantic), &mut rec);
                d.u64(r.is_ok() as u64);
                for (k, a) in rec.cmds.iter().take(8) {
                    d.u64(*k as u64 ^ ((a[0] as u64) << 8) ^ ((a[1] as u64) << 40));
                }
                if r.is_ok() {
                    stats.bump("probe.hintops.draw_ok");
                } else {
                    stats.bump("probe.hintops.draw_err");
                }
                stats.bump("sim.draws");
            }
        }
        stats.state(fnv(&[t.units.last().map(|u| u.opcode).unwrap_or(0), ok as u8]));
        Verdict::Pass { digest: d.finish(), sig: fnv(serde_json::to_string(&(&t.units, t.place, t.size_q, t.target, &t.cvt)).unwrap_or_default().as_bytes()), nontrivial: ok }
    }
    fn shrink(&self, t: &HintTrace) -> Vec<HintTrace> {
        let mut out = Vec::new();
        for u in drop_chunks(&t.units) {
            if !u.is_empty() {
                out.push(HintTrace { units: u, ..t.clone() });
            }
        }
        for (i, u) in t.units.iter().enumerate() {
            for ops in drop_chunks(&u.operands) {
                let mut c = t.clone();
                c.units[i].operands = ops;
                out.push(c);
            }
            for (j, v) in u.operands.iter().enumerate() {
                for simpler in [0i32, 1, -1, 64] {
                    if *v != simpler && !(0..7).contains(v) {
                        let mut c = t.clone();
                        c.units[i].operands[j] = simpler;
                        out.push(c);
                    }
                }
            }
        }
        if !t.cvt.is_empty() {
            out.push(HintTrace { cvt: vec![], ..t.clone() });
        }
        if t.place != 0 {
            out.push(HintTrace { place: 0, ..t.clone() });
        }
        if t.size_q != 64 {
            out.push(HintTrace { size_q: 64, ..t.clone() });
        }
        out
    }
}
