//! Seam S1: thread schedule. Caller threads run as shuttle tasks; every scheduling
//! decision is taken by `TraceScheduler`, from the case seed or from a recorded list.

use crate::core::rng::{mix, Rng};
use serde::{Deserialize, Serialize};
use shuttle::scheduler::{Schedule, Scheduler, Task, TaskId};
use std::cell::{Cell, RefCell};
use std::sync::{Arc, Mutex};

#[derive(Clone, Debug, Serialize, Deserialize, PartialEq)]
pub enum Strategy {
    /// uniform over runnable tasks at every point
    Uniform,
    /// run the current task; switch only at the listed decision indices
    Preempt { at: Vec<u32> },
    /// rotate every `period` decisions
    RoundRobin { period: u32 },
    /// task `victim` only runs when nothing else can
    Starve { victim: u32 },
}

#[derive(Clone, Debug, Serialize, Deserialize)]
pub struct SchedSpec {
    pub strategy: Strategy,
    pub seed: u64,
    /// after this many decisions the current task simply runs on
    pub max_decisions: u32,
}

impl SchedSpec {
    pub fn generate(rng: &mut Rng, max_tasks: u32) -> SchedSpec {
        let strategy = match rng.below(10) {
            0..=2 => Strategy::Uniform,
            3..=6 => {
                let d = 1 + rng.below(3) as usize;
                // expected number of points is unknown up front: log-uniform horizon
                let horizon = 1u64 << rng.below(15);
                let mut at: Vec<u32> = (0..d).map(|_| rng.below(horizon.max(2)) as u32).collect();
                at.sort();
                at.dedup();
                Strategy::Preempt { at }
            }
            7..=8 => Strategy::RoundRobin { period: *rng.pick(&[1u32, 2, 5, 50]) },
            _ => Strategy::Starve { victim: rng.below(max_tasks as u64 + 1) as u32 },
        };
        SchedSpec { strategy, seed: rng.next_u64(), max_decisions: 20_000 }
    }
}

/// Recorded schedule: run-length encoded task ids, in decision order.
pub type Recorded = Vec<[u32; 2]>;

#[derive(Default)]
struct Shared {
    recorded: Recorded,
    decisions: u64,
    switches: u64,
    replay_mismatch: u64,
}

struct TraceScheduler {
    spec: SchedSpec,
    rng: Rng,
    replay: Option<Vec<u32>>, // expanded
    pos: usize,
    started: bool,
    shared: Arc<Mutex<Shared>>,
    rr_count: u32,
}

impl TraceScheduler {
    fn record(&mut self, t: u32, switched: bool) {
        let mut s = self.shared.lock().unwrap();
        s.decisions += 1;
        if switched {
            s.switches += 1;
        }
        match s.recorded.last_mut() {
            Some(last) if last[0] == t => last[1] += 1,
            _ => s.recorded.push([t, 1]),
        }
    }
}

impl Scheduler for TraceScheduler {
    fn new_execution(&mut self) -> Option<Schedule> {
        if self.started {
            None
        } else {
            self.started = true;
            Some(Schedule::new(self.spec.seed))
        }
    }

    fn next_task(&mut self, runnable: &[&Task], current: Option<TaskId>, _is_yielding: bool) -> Option<TaskId> {
        let mut ids: Vec<usize> = runnable.iter().map(|t| usize::from(t.id())).collect();
        ids.sort_unstable();
        let cur = current.map(usize::from);
        let cur_runnable = cur.map(|c| ids.contains(&c)).unwrap_or(false);
        let fallback = if cur_runnable { cur.unwrap() } else { ids[0] };
        let idx = self.pos;
        self.pos += 1;
        let choice = if let Some(rep) = &self.replay {
            match rep.get(idx) {
                Some(t) if ids.contains(&(*t as usize)) => *t as usize,
                Some(_) => {
                    self.shared.lock().unwrap().replay_mismatch += 1;
                    fallback
                }
                None => fallback,
            }
        } else if idx as u32 >= self.spec.max_decisions {
            fallback
        } else {
            match &self.spec.strategy {
                Strategy::Uniform => ids[self.rng.usize_below(ids.len())],
                Strategy::Preempt { at } => {
                    if cur_runnable && !at.contains(&(idx as u32)) {
                        fallback
                    } else {
                        let others: Vec<usize> = ids.iter().copied().filter(|i| Some(*i) != cur).collect();
                        if others.is_empty() {
                            fallback
                        } else {
                            others[self.rng.usize_below(others.len())]
                        }
                    }
                }
                Strategy::RoundRobin { period } => {
                    self.rr_count += 1;
                    if cur_runnable && self.rr_count % period.max(&1) != 0 {
                        fallback
                    } else {
                        // next runnable id after current, cyclically
                        let c = cur.unwrap_or(0);
                        *ids.iter().find(|i| **i > c).unwrap_or(&ids[0])
                    }
                }
                Strategy::Starve { victim } => {
                    let others: Vec<usize> = ids.iter().copied().filter(|i| *i != *victim as usize).collect();
                    if others.is_empty() {
                        ids[0]
                    } else {
                        others[self.rng.usize_below(others.len())]
                    }
                }
            }
        };
        self.record(choice as u32, Some(choice) != cur);
        Some(TaskId::from(choice))
    }

    fn next_u64(&mut self) -> u64 {
        self.rng.next_u64()
    }
}

thread_local! {
    static IN_SIM: Cell<bool> = const { Cell::new(false) };
    static SITE_LOG: RefCell<SiteLog> = RefCell::new(SiteLog::default());
}

#[derive(Default, Clone)]
pub struct SiteLog {
    pub points: u64,
    pub task_switches_at_points: u64,
    pub last_task: u32,
    /// order-sensitive hash of the run-length-encoded task sequence at scheduling points
    pub interleaving: u64,
    pub per_site: [u64; 4],
}

fn site_index(site: &str) -> usize {
    match site {
        "graph::ObjectId::next" => 0,
        "autohint::metrics::before_read" => 1,
        "autohint::metrics::after_read" => 2,
        "autohint::metrics::before_write" => 3,
        _ => 3,
    }
}

fn hook(site: &'static str) {
    if !IN_SIM.with(|c| c.get()) {
        return;
    }
    let me = usize::from(shuttle::current::me()) as u32;
    SITE_LOG.with(|l| {
        let mut l = l.borrow_mut();
        l.points += 1;
        l.per_site[site_index(site)] += 1;
        if l.points == 1 || l.last_task != me {
            if l.points > 1 {
                l.task_switches_at_points += 1;
            }
            l.interleaving = mix(l.interleaving, ((site_index(site) as u64) << 32) | me as u64);
            l.last_task = me;
        }
    });
    shuttle::thread::yield_now();
}

pub fn install_hook() {
    font_types::verif_hooks::install(hook);
}

/// A scheduling point the harness itself offers (job boundaries etc.).
pub fn harness_point() {
    if IN_SIM.with(|c| c.get()) {
        shuttle::thread::yield_now();
    }
}

pub struct SimResult {
    pub recorded: Recorded,
    pub decisions: u64,
    pub switches: u64,
    pub replay_mismatch: u64,
    pub sites: SiteLog,
    /// the execution panicked (a task panicked or shuttle gave up)
    pub panicked: bool,
}

fn expand(r: &Recorded) -> Vec<u32> {
    let mut v = Vec::new();
    for [t, n] in r {
        for _ in 0..*n {
            v.push(*t);
            if v.len() > 2_000_000 {
                return v;
            }
        }
    }
    v
}

/// Runs `body` as the main task of one simulated execution. Must be called on the
/// thread that is to host all tasks (they are coroutines on this OS thread).
pub fn run_sim<F>(spec: &SchedSpec, replay: Option<&Recorded>, body: F) -> SimResult
where
    F: Fn() + Send + Sync + 'static,
{
    install_hook();
    let shared = Arc::new(Mutex::new(Shared::default()));
    let sched = TraceScheduler {
        spec: spec.clone(),
        rng: Rng::new(spec.seed),
        replay: replay.filter(|r| !r.is_empty()).map(expand),
        pos: 0,
        started: false,
        shared: shared.clone(),
        rr_count: 0,
    };
    let mut cfg = shuttle::Config::new();
    cfg.stack_size = 4 << 20;
    cfg.failure_persistence = shuttle::FailurePersistence::None;
    cfg.max_steps = shuttle::MaxSteps::None;
    cfg.silence_warnings = true;
    SITE_LOG.with(|l| *l.borrow_mut() = SiteLog::default());
    IN_SIM.with(|c| c.set(true));
    let runner = shuttle::Runner::new(sched, cfg);
    let r = std::panic::catch_unwind(std::panic::AssertUnwindSafe(move || {
        runner.run(body);
    }));
    IN_SIM.with(|c| c.set(false));
    let sites = SITE_LOG.with(|l| l.borrow().clone());
    let mut s = shared.lock().unwrap();
    SimResult {
        recorded: std::mem::take(&mut s.recorded),
        decisions: s.decisions,
        switches: s.switches,
        replay_mismatch: s.replay_mismatch,
        sites,
        panicked: r.is_err(),
    }
}

/// Shrink candidates for a recorded schedule: drop whole runs, merge runs into the
/// preceding task (i.e. "keep running the same task"), truncate the tail.
pub fn shrink_schedule(r: &Recorded) -> Vec<Recorded> {
    let mut out = Vec::new();
    if r.is_empty() {
        return out;
    }
    // truncate tail (beyond the end the scheduler keeps the current task)
    let mut n = r.len() / 2;
    while n >= 1 {
        out.push(r[..r.len() - n].to_vec());
        if n == 1 {
            break;
        }
        n /= 2;
    }
    // hand one run to the previous task
    for i in 1..r.len().min(64) {
        let mut c = r.clone();
        let cnt = c[i][1];
        c[i - 1][1] += cnt;
        c.remove(i);
        // merge neighbours that became equal
        if i < c.len() && c[i - 1][0] == c[i][0] {
            let m = c[i][1];
            c[i - 1][1] += m;
            c.remove(i);
        }
        out.push(c);
    }
    out
}
