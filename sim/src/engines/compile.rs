//! C07: compilation is deterministic across threads, hash seeds and prior work.
//!
//! N shuttle tasks run compile jobs; scheduling points at every object-id allocation
//! (hook in write-fonts) and at job boundaries; std HashMap keys per run from seam S2.

use crate::core::hashseed;
use crate::core::rng::{fnv, mix, Digest, Rng};
use crate::core::{Engine, Stats, Verdict, Violation};
use crate::corpus;
use crate::engines::sched::{self, Recorded, SchedSpec};
use serde::{Deserialize, Serialize};
use std::collections::HashMap;
use std::sync::{Arc, Mutex};
use write_fonts::read::{FontData, FontRead, FontRef, TableProvider};
use write_fonts::types::{F2Dot14, GlyphId, GlyphId16, Tag};
use write_fonts::{dump_table, tables, FontBuilder};

#[derive(Clone, Debug, Serialize, Deserialize, PartialEq, Eq, Hash)]
pub enum Job {
    /// read a corpus table into its owned form and compile it again
    Roundtrip { font: String, tag: String },
    /// GPOS with big format-1 PairPos lookups (glyph ranges), forcing promotion / splitting
    BigPairPos { ranges: Vec<(u16, u16)>, width: u16 },
    /// GSUB reverse-chain rules, each with private coverage tables (extension promotion)
    BigRsub { n: u16 },
    /// PairPosBuilder + LookupBuilder (class and glyph pairs)
    PairBuilder { firsts: u16, seconds: u16, classes: u16, seed: u64 },
    /// MarkToBaseBuilder
    MarkBase { marks: u16, bases: u16, classes: u16, seed: u64 },
    /// GlyphVariations -> gvar
    Gvar { glyphs: u16, axes: u16, seed: u64 },
    /// VariationStoreBuilder
    Ivs { rows: u16, regions: u16, axes: u16, seed: u64 },
    /// cmap from mappings
    Cmap { n: u16, seed: u64 },
    /// FontBuilder over several compiled tables of a corpus font
    FontBuild { font: String, seed: u64 },
    /// klippa subset
    Subset { font: String, gids: Vec<u32>, unicodes: Vec<u32>, flags: u16 },
    /// SinglePosBuilder with several equal-sized groups of glyphs sharing a value record
    SinglePos { groups: u16, group_size: u16, extra_formats: u16, seed: u64 },
    /// "building a font" through the IFT client: one select-and-apply round over a generated world in
    /// which two glyph-keyed patches of one group supply different data for a shared glyph
    IftApply { seed: u64 },
    /// GSUB with many lookups of identical shape and size that together exceed 64 KiB: extension promotion
    /// has to choose among candidates of equal density
    ManyLookups { lookups: u16, glyphs: u16, odd_one: bool },
    /// klippa subset of a font that sits in a buffer which held a slightly different version of the same
    /// font (one cmap bit flipped) during an earlier subsetting run: the result must be that of the bytes
    /// now in the buffer, whatever the same memory held before
    SubsetReusedBuffer { font: String, gids: Vec<u32>, unicodes: Vec<u32>, flags: u16, flip: u32 },
    /// crash point inside an earlier compilation: on the same thread, a compilation of part of the same
    /// GPOS/GSUB table (part 0 script list, 1 feature list, 2 lookup list, 3 all three) is aborted by a panic
    /// after its subtables were handed to the writer; the caller catches it and compiles the whole table.
    /// The result must be that of a thread that never saw the aborted compilation.
    RoundtripAfterAbort { font: String, tag: String, part: u8 },
}

/// Hands `parts` to the table writer as subtables, then dies: a `write_into` that panics half way.
struct AbortAfter<'a>(Vec<&'a dyn write_fonts::FontWrite>);
impl write_fonts::FontWrite for AbortAfter<'_> {
    fn write_into(&self, w: &mut write_fonts::TableWriter) {
        for p in &self.0 {
            p.write_into(w);
        }
        std::panic::resume_unwind(Box::new("verif: compilation aborted half way"));
    }
}
impl write_fonts::validate::Validate for AbortAfter<'_> {
    fn validate_impl(&self, _ctx: &mut write_fonts::validate::ValidationCtx) {}
}

fn aborted_partial_compile(data: &[u8], tag: &str, part: u8) {
    macro_rules! abort {
        ($ty:ty) => {{
            if let Ok(t) = <$ty as FontRead>::read(FontData::new(data)) {
                let all: [&dyn write_fonts::FontWrite; 3] = [&t.script_list, &t.feature_list, &t.lookup_list];
                let parts: Vec<&dyn write_fonts::FontWrite> = if part >= 3 { all.to_vec() } else { vec![all[part as usize]] };
                let w = AbortAfter(parts);
                let _ = std::panic::catch_unwind(std::panic::AssertUnwindSafe(|| dump_table(&w)));
            }
        }};
    }
    match tag {
        "GPOS" => abort!(tables::gpos::Gpos),
        "GSUB" => abort!(tables::gsub::Gsub),
        _ => {}
    }
}

impl Job {
    pub fn key(&self) -> u64 {
        fnv(serde_json::to_string(self).unwrap_or_default().as_bytes())
    }
}

/// Outcome of a job: digest of Ok(bytes) or an error kind.
#[derive(Clone, Debug, PartialEq, Eq)]
pub enum JobOut {
    Bytes { digest: u64, len: usize },
    Err(String),
}

fn out_of(r: Result<Vec<u8>, String>) -> JobOut {
    match r {
        Ok(b) => {
            let mut d = Digest::new();
            d.bytes(&b);
            JobOut::Bytes { digest: d.finish(), len: b.len() }
        }
        Err(e) => JobOut::Err(e),
    }
}

fn err_kind(e: &write_fonts::error::Error) -> String {
    match e {
        write_fonts::error::Error::ValidationFailed(_) => "ValidationFailed".into(),
        write_fonts::error::Error::PackingFailed(_) => "PackingFailed".into(),
    }
}

macro_rules! rt {
    ($data:expr, $ty:ty) => {{
        let t = <$ty as FontRead>::read(FontData::new($data)).map_err(|_| "read".to_string())?;
        dump_table(&t).map_err(|e| err_kind(&e))
    }};
}

pub const ROUNDTRIP_TAGS: &[&str] = &[
    "GPOS", "GSUB", "GDEF", "cmap", "name", "OS/2", "head", "hhea", "maxp", "post", "fvar", "avar", "HVAR", "MVAR", "STAT", "COLR", "CPAL", "BASE", "gasp", "vhea", "VVAR", "meta",
];

fn roundtrip(data: &[u8], tag: &str) -> Result<Vec<u8>, String> {
    match tag {
        "GPOS" => rt!(data, tables::gpos::Gpos),
        "GSUB" => rt!(data, tables::gsub::Gsub),
        "GDEF" => rt!(data, tables::gdef::Gdef),
        "cmap" => rt!(data, tables::cmap::Cmap),
        "name" => rt!(data, tables::name::Name),
        "OS/2" => rt!(data, tables::os2::Os2),
        "head" => rt!(data, tables::head::Head),
        "hhea" => rt!(data, tables::hhea::Hhea),
        "maxp" => rt!(data, tables::maxp::Maxp),
        "post" => rt!(data, tables::post::Post),
        "fvar" => rt!(data, tables::fvar::Fvar),
        "avar" => rt!(data, tables::avar::Avar),
        "HVAR" => rt!(data, tables::hvar::Hvar),
        "MVAR" => rt!(data, tables::mvar::Mvar),
        "STAT" => rt!(data, tables::stat::Stat),
        "COLR" => rt!(data, tables::colr::Colr),
        "CPAL" => rt!(data, tables::cpal::Cpal),
        "BASE" => rt!(data, tables::base::Base),
        "gasp" => rt!(data, tables::gasp::Gasp),
        "vhea" => rt!(data, tables::vhea::Vhea),
        "VVAR" => rt!(data, tables::vvar::Vvar),
        "meta" => rt!(data, tables::meta::Meta),
        _ => Err("unsupported".into()),
    }
}

fn tag_of(s: &str) -> Tag {
    let mut b = [b' '; 4];
    for (i, c) in s.bytes().take(4).enumerate() {
        b[i] = c;
    }
    Tag::new(&b)
}

fn big_pair_pos(lo: u16, hi: u16, width: u16) -> tables::gpos::PositionLookup {
    use tables::{gpos, layout};
    let coverage = (lo..hi).map(GlyphId16::new).collect();
    let pair_sets = (lo..hi)
        .map(|id| {
            let value_rec = gpos::ValueRecord::new().with_x_advance(id as _);
            gpos::PairSet::new(
                (id..id.saturating_add(width))
                    .map(|id2| gpos::PairValueRecord::new(GlyphId16::new(id2), value_rec.clone(), gpos::ValueRecord::default()))
                    .collect(),
            )
        })
        .collect::<Vec<_>>();
    gpos::PositionLookup::Pair(layout::Lookup::new(layout::LookupFlag::empty(), vec![gpos::PairPos::format_1(coverage, pair_sets)]))
}

pub fn subset_font(data: &[u8], gids: &[u32], unicodes: &[u32], flags: u16) -> Result<Vec<u8>, String> {
    use klippa::{Plan, SubsetFlags};
    use write_fonts::read::collections::IntSet;
    use write_fonts::types::NameId;
    let font = FontRef::new(data).map_err(|_| "open".to_string())?;
    let mut g = IntSet::<GlyphId>::empty();
    for x in gids {
        g.insert(GlyphId::new(*x));
    }
    let mut u = IntSet::<u32>::empty();
    for x in unicodes {
        u.insert(*x);
    }
    let drop_tables: IntSet<Tag> = IntSet::empty();
    let mut scripts = IntSet::<Tag>::empty();
    scripts.invert();
    let mut features = IntSet::<Tag>::empty();
    features.extend(klippa::DEFAULT_LAYOUT_FEATURES.iter().copied());
    let mut name_ids = IntSet::<NameId>::empty();
    name_ids.insert_range(NameId::from(0)..=NameId::from(6));
    let mut langs = IntSet::<u16>::empty();
    langs.insert(0x0409);
    let plan = Plan::new(&g, &u, &font, SubsetFlags::from(flags), &drop_tables, &scripts, &features, &name_ids, &langs);
    klippa::subset_font(&font, &plan).map_err(|e| format!("subset:{}", short_debug(&e)))
}

fn short_debug<T: std::fmt::Debug>(e: &T) -> String {
    let s = format!("{e:?}");
    s.chars().take_while(|c| c.is_alphanumeric() || *c == '_').collect()
}

pub fn run_job(job: &Job) -> JobOut {
    let r = std::panic::catch_unwind(std::panic::AssertUnwindSafe(|| run_job_inner(job)));
    match r {
        Ok(r) => out_of(r),
        Err(_) => {
            let rec = crate::core::panics::take().unwrap_or_default();
            crate::core::panics::reset();
            JobOut::Err(format!("panic:{}:{}:{}", rec.file_rel(), rec.line, rec.msg.chars().take(60).collect::<String>()))
        }
    }
}

fn run_job_inner(job: &Job) -> Result<Vec<u8>, String> {
    match job {
        Job::Roundtrip { font, tag } => {
            let f = corpus::by_name(font).ok_or("nofont")?;
            let fr = FontRef::new(f.data).map_err(|_| "open".to_string())?;
            let data = fr.table_data(tag_of(tag)).ok_or("notable")?;
            roundtrip(data.as_bytes(), tag)
        }
        Job::RoundtripAfterAbort { font, tag, part } => {
            let f = corpus::by_name(font).ok_or("nofont")?;
            let fr = FontRef::new(f.data).map_err(|_| "open".to_string())?;
            let data = fr.table_data(tag_of(tag)).ok_or("notable")?;
            aborted_partial_compile(data.as_bytes(), tag, *part);
            roundtrip(data.as_bytes(), tag)
        }
        Job::BigPairPos { ranges, width } => {
            use tables::{gpos, layout};
            let lookups = ranges.iter().map(|(lo, hi)| big_pair_pos(*lo, *hi, *width)).collect();
            let table = gpos::Gpos::new(Default::default(), Default::default(), layout::LookupList::new(lookups));
            dump_table(&table).map_err(|e| err_kind(&e))
        }
        Job::BigRsub { n } => {
            use tables::{gsub, layout};
            let rules = (0u16..*n)
                .map(|id| {
                    let coverage = std::iter::once(GlyphId16::new(id)).collect();
                    let backtrack = [id + 1, id + 3].into_iter().map(GlyphId16::new).collect();
                    gsub::ReverseChainSingleSubstFormat1::new(coverage, vec![backtrack], vec![], vec![GlyphId16::new(id + 1)])
                })
                .collect();
            let list = layout::LookupList::<gsub::SubstitutionLookup>::new(vec![gsub::SubstitutionLookup::Reverse(layout::Lookup::new(layout::LookupFlag::empty(), rules))]);
            let table = gsub::Gsub::new(Default::default(), Default::default(), list);
            dump_table(&table).map_err(|e| err_kind(&e))
        }
        Job::PairBuilder { firsts, seconds, classes, seed } => {
            use tables::gpos::builders::{PairPosBuilder, ValueRecordBuilder};
            use tables::layout::builders::{Builder, LookupBuilder};
            use tables::variations::ivs_builder::VariationStoreBuilder;
            use tables::{gpos, layout};
            let mut rng = Rng::new(*seed);
            let mut b = PairPosBuilder::default();
            for g1 in 0..*firsts {
                for k in 0..*seconds {
                    let g2 = 1000 + ((g1 as u32 * 7 + k as u32 * 3) % 4000) as u16;
                    let v = (rng.below(400) as i16) - 200;
                    let r1 = ValueRecordBuilder::new().with_x_advance(v);
                    let r2 = if rng.chance(1, 8) { ValueRecordBuilder::new().with_x_placement(v / 2) } else { ValueRecordBuilder::new() };
                    b.insert_pair(GlyphId16::new(g1 + 1), r1, GlyphId16::new(g2), r2);
                }
            }
            for c in 0..*classes {
                use write_fonts::read::collections::IntSet;
                let mut c1 = IntSet::<GlyphId16>::empty();
                let mut c2 = IntSet::<GlyphId16>::empty();
                for k in 0..(1 + rng.below(4) as u16) {
                    c1.insert(GlyphId16::new(5000 + c * 10 + k));
                    c2.insert(GlyphId16::new(6000 + ((c * 3 + k) % 50)));
                }
                let v = (rng.below(400) as i16) - 200;
                b.insert_classes(c1, ValueRecordBuilder::new().with_x_advance(v), c2, ValueRecordBuilder::new());
            }
            let lb = LookupBuilder::new_with_lookups(layout::LookupFlag::empty(), None, vec![b]);
            let mut vs = VariationStoreBuilder::new(0);
            let lookup: layout::Lookup<gpos::PairPos> = lb.build(&mut vs);
            let table = gpos::Gpos::new(Default::default(), Default::default(), layout::LookupList::new(vec![gpos::PositionLookup::Pair(lookup)]));
            dump_table(&table).map_err(|e| err_kind(&e))
        }
        Job::MarkBase { marks, bases, classes, seed } => {
            use tables::gpos::builders::{AnchorBuilder, MarkToBaseBuilder};
            use tables::layout::builders::{Builder, LookupBuilder};
            use tables::variations::ivs_builder::VariationStoreBuilder;
            use tables::{gpos, layout};
            let mut rng = Rng::new(*seed);
            let mut b = MarkToBaseBuilder::default();
            let ncls = (*classes).max(1).min((*marks).max(1));
            for m in 0..*marks {
                let cls = format!("c{}", m % ncls);
                let _ = b.insert_mark(GlyphId16::new(10_000 + m), &cls, AnchorBuilder::new(rng.below(500) as i16, rng.below(500) as i16));
            }
            for g in 0..*bases {
                for c in 0..ncls {
                    if rng.chance(3, 4) {
                        b.insert_base(GlyphId16::new(1 + g), &format!("c{c}"), AnchorBuilder::new(rng.below(900) as i16, (g % 700) as i16));
                    }
                }
            }
            let lb = LookupBuilder::new_with_lookups(layout::LookupFlag::empty(), None, vec![b]);
            let mut vs = VariationStoreBuilder::new(0);
            let lookup: layout::Lookup<gpos::MarkBasePosFormat1> = lb.build(&mut vs);
            let table = gpos::Gpos::new(Default::default(), Default::default(), layout::LookupList::new(vec![gpos::PositionLookup::MarkToBase(lookup)]));
            dump_table(&table).map_err(|e| err_kind(&e))
        }
        Job::Gvar { glyphs, axes, seed } => {
            use tables::gvar::{GlyphDelta, GlyphDeltas, GlyphVariations, Gvar, Tent};
            let mut rng = Rng::new(*seed);
            let axes_n = (*axes).max(1) as usize;
            // a small pool of peaks so that tuples are shared between glyphs
            let peaks: Vec<Vec<i16>> = (0..6).map(|_| (0..axes_n).map(|_| *rng.pick(&[-16384i16, -8192, 0, 8192, 16384])).collect()).collect();
            let mut vars = Vec::new();
            for g in 0..*glyphs {
                let npts = 3 + rng.below(12) as usize;
                let nvar = rng.below(4) as usize;
                let mut v = Vec::new();
                for _ in 0..nvar {
                    let p = rng.pick(&peaks).clone();
                    let tents = p.iter().map(|pk| Tent::new(F2Dot14::from_bits(*pk), None)).collect();
                    let deltas = (0..npts)
                        .map(|_| {
                            let x = rng.range(-300, 300) as i16;
                            let y = rng.range(-300, 300) as i16;
                            if rng.chance(1, 3) {
                                GlyphDelta::optional(x, y)
                            } else {
                                GlyphDelta::required(x, y)
                            }
                        })
                        .collect();
                    v.push(GlyphDeltas::new(tents, deltas));
                }
                vars.push(GlyphVariations::new(GlyphId::new(g as u32), v));
            }
            let gvar = Gvar::new(vars, axes_n as u16).map_err(|e| format!("gvar:{}", short_debug(&e)))?;
            dump_table(&gvar).map_err(|e| err_kind(&e))
        }
        Job::Ivs { rows, regions, axes, seed } => {
            use tables::variations::ivs_builder::VariationStoreBuilder;
            use tables::variations::{RegionAxisCoordinates, VariationRegion};
            let mut rng = Rng::new(*seed);
            let axes_n = (*axes).max(1);
            let regs: Vec<VariationRegion> = (0..(*regions).max(1))
                .map(|_| {
                    VariationRegion::new(
                        (0..axes_n)
                            .map(|_| {
                                let peak = *rng.pick(&[-1.0f32, -0.5, 0.0, 0.5, 1.0]);
                                RegionAxisCoordinates::new(F2Dot14::from_f32(peak.min(0.0)), F2Dot14::from_f32(peak), F2Dot14::from_f32(peak.max(0.0)))
                            })
                            .collect(),
                    )
                })
                .collect();
            let mut b = VariationStoreBuilder::new(axes_n);
            let mut ids = Vec::new();
            for _ in 0..*rows {
                let k = 1 + rng.usize_below(regs.len().min(4));
                let mut ds = Vec::new();
                let mut used = Vec::new();
                for _ in 0..k {
                    let ri = rng.usize_below(regs.len());
                    if used.contains(&ri) {
                        continue;
                    }
                    used.push(ri);
                    let mag = *rng.pick(&[3i32, 100, 30000, 100000]);
                    ds.push((regs[ri].clone(), rng.range(-(mag as i64), mag as i64) as i32));
                }
                ids.push(b.add_deltas(ds));
            }
            let (store, remap) = b.build();
            let mut out = dump_table(&store).map_err(|e| err_kind(&e))?;
            for id in ids {
                if let Some(vi) = remap.get(id) {
                    out.extend_from_slice(&vi.delta_set_outer_index.to_be_bytes());
                    out.extend_from_slice(&vi.delta_set_inner_index.to_be_bytes());
                }
            }
            Ok(out)
        }
        Job::Cmap { n, seed } => {
            let mut rng = Rng::new(*seed);
            let mut maps = Vec::new();
            let mut cp = 0x20u32;
            for i in 0..*n {
                let span = if rng.chance(1, 10) { 5000 } else { 3 };
                cp += 1 + rng.below(span) as u32;
                if let Some(c) = char::from_u32(cp) {
                    maps.push((c, GlyphId::new(1 + (i as u32 * 7) % 60000)));
                }
            }
            let cmap = tables::cmap::Cmap::from_mappings(maps).map_err(|_| "conflict".to_string())?;
            dump_table(&cmap).map_err(|e| err_kind(&e))
        }
        Job::FontBuild { font, seed } => {
            let f = corpus::by_name(font).ok_or("nofont")?;
            let fr = FontRef::new(f.data).map_err(|_| "open".to_string())?;
            let mut rng = Rng::new(*seed);
            let mut b = FontBuilder::new();
            let mut tags: Vec<&str> = ROUNDTRIP_TAGS.to_vec();
            rng.shuffle(&mut tags);
            for t in tags.iter().take(8) {
                if let Some(d) = fr.table_data(tag_of(t)) {
                    if let Ok(bytes) = roundtrip(d.as_bytes(), t) {
                        b.add_raw(tag_of(t), bytes);
                    }
                }
            }
            b.copy_missing_tables(fr);
            Ok(b.build())
        }
        Job::Subset { font, gids, unicodes, flags } => {
            let f = corpus::by_name(font).ok_or("nofont")?;
            subset_font(f.data, gids, unicodes, *flags)
        }
        Job::SubsetReusedBuffer { font, gids, unicodes, flags, flip } => {
            let f = corpus::by_name(font).ok_or("nofont")?;
            let mut buf = f.data.to_vec();
            let (at, len) = {
                let fr = FontRef::new(&buf).map_err(|_| "open".to_string())?;
                let rec = fr.table_directory.table_records().iter().find(|r| r.tag() == Tag::new(b"cmap")).ok_or("nocmap")?;
                (rec.offset() as usize, rec.length() as usize)
            };
            if len > 12 {
                // earlier run: the same buffer holds a version of the font with one cmap bit flipped
                let bit = 96 + (*flip as usize) % ((len - 12) * 8);
                buf[at + bit / 8] ^= 1 << (bit % 8);
                let _ = std::panic::catch_unwind(std::panic::AssertUnwindSafe(|| subset_font(&buf, gids, unicodes, *flags)));
                crate::core::panics::reset();
                buf[at + bit / 8] ^= 1 << (bit % 8);
            }
            subset_font(&buf, gids, unicodes, *flags)
        }
        Job::ManyLookups { lookups, glyphs, odd_one } => {
            use tables::{gsub, layout};
            let list: Vec<gsub::SubstitutionLookup> = (0..*lookups)
                .map(|i| {
                    let n = if *odd_one && i == lookups / 2 { glyphs / 2 + 1 } else { *glyphs };
                    let coverage = (0..n).map(|g| GlyphId16::new(10 + g * 2)).collect();
                    let first_alt = 9_000 + (i as u32 * 131 % 20_000) as u16;
                    let alternates = (0..n).rev().map(|g| GlyphId16::new(first_alt + g)).collect();
                    gsub::SubstitutionLookup::Single(layout::Lookup::new(layout::LookupFlag::empty(), vec![gsub::SingleSubst::format_2(coverage, alternates)]))
                })
                .collect();
            let table = gsub::Gsub::new(Default::default(), Default::default(), layout::LookupList::new(list));
            dump_table(&table).map_err(|e| err_kind(&e))
        }
        Job::SinglePos { groups, group_size, extra_formats, seed } => {
            use tables::gpos::builders::{SinglePosBuilder, ValueRecordBuilder};
            use tables::layout::builders::{Builder, LookupBuilder};
            use tables::variations::ivs_builder::VariationStoreBuilder;
            use tables::{gpos, layout};
            let mut rng = Rng::new(*seed);
            let mut b = SinglePosBuilder::default();
            let mut gid = 1u16;
            for g in 0..*groups {
                // each group shares one value record; several groups have the same size
                let rec = ValueRecordBuilder::new().with_x_advance(10 + g as i16).with_x_placement((g % 3) as i16);
                for _ in 0..(*group_size).max(1) {
                    b.insert(GlyphId16::new(gid), rec.clone());
                    gid += 1 + rng.below(3) as u16;
                }
            }
            for k in 0..*extra_formats {
                // small groups with distinct value formats end up in per-format subtables
                let rec = match k % 3 {
                    0 => ValueRecordBuilder::new().with_y_advance(5 + k as i16),
                    1 => ValueRecordBuilder::new().with_y_placement(7 + k as i16),
                    _ => ValueRecordBuilder::new().with_x_placement(3).with_y_placement(k as i16 + 1),
                };
                b.insert(GlyphId16::new(gid), rec);
                gid += 2;
            }
            let lb = LookupBuilder::new_with_lookups(layout::LookupFlag::empty(), None, vec![b]);
            let mut vs = VariationStoreBuilder::new(0);
            let lookup: layout::Lookup<gpos::SinglePos> = lb.build(&mut vs);
            let table = gpos::Gpos::new(Default::default(), Default::default(), layout::LookupList::new(vec![gpos::PositionLookup::Single(lookup)]));
            dump_table(&table).map_err(|e| err_kind(&e))
        }
        Job::IftApply { seed } => ift_apply_job(*seed),
    }
}

fn ift_apply_job(seed: u64) -> Result<Vec<u8>, String> {
    use crate::ift::{sim, world};
    use incremental_font_transfer::patch_group::{PatchGroup, UriStatus};
    let mut rng = Rng::new(seed);
    let mut w = world::gen_world(&mut rng);
    // make two glyph-keyed patches of the root table disagree on a shared glyph
    let Some(r) = w.roots[0] else { return Err("noroot".into()) };
    let tag = w.outline_tag();
    let idx: Vec<usize> = w.versions[r].entries.iter().enumerate().filter(|(_, e)| e.format == 3 && !e.ignored).map(|(i, _)| i).collect();
    if idx.len() >= 2 {
        let (pa, pb) = (w.versions[r].entries[idx[0]].patch, w.versions[r].entries[idx[1]].patch);
        let shared = 1u32.min(w.n_glyphs - 1);
        for (k, p) in [(0u8, pa), (1u8, pb)] {
            if let world::Patch::Glyph { gids, tables, alt, .. } = &mut w.patches[p] {
                if !gids.contains(&shared) {
                    gids.push(shared);
                    gids.sort_unstable();
                }
                if !tables.contains(&tag) {
                    tables.push(tag);
                    tables.sort();
                }
                *alt = k;
            }
        }
        if pa == pb {
            return Err("shared".into());
        }
    }
    let base = w.base_font();
    let server = sim::server_index(&w);
    let fr = FontRef::new(&base).map_err(|_| "open".to_string())?;
    let def = sim::real_def(&world::Def::all());
    let group = PatchGroup::select_next_patches(fr, &def).map_err(|_| "select".to_string())?;
    let mut book: HashMap<String, UriStatus> = HashMap::new();
    for u in group.uris() {
        if let Some((v, e)) = server.get(u) {
            book.insert(u.to_string(), UriStatus::Pending(w.patch_bytes(*v, *e)));
        }
    }
    if !group.has_uris() {
        return Ok(base);
    }
    group.apply_next_patches(&mut book).map_err(|e| format!("apply:{}", short_debug(&e)))
}

// ------------------------------------------------------------------ job pool

pub struct Pool {
    /// (font, tag) pairs that exist in the corpus
    pub roundtrips: Vec<(String, String)>,
    /// glyf fonts suited to subsetting: (name, glyph count, some code points)
    pub subsettable: Vec<(String, u32, Vec<u32>)>,
}

pub fn pool() -> &'static Pool {
    static P: std::sync::OnceLock<Pool> = std::sync::OnceLock::new();
    P.get_or_init(|| {
        let mut roundtrips = Vec::new();
        let mut subsettable = Vec::new();
        for f in corpus::corpus() {
            let Ok(fr) = FontRef::new(f.data) else { continue };
            for t in ROUNDTRIP_TAGS {
                if fr.table_data(tag_of(t)).is_some() {
                    roundtrips.push((f.name.clone(), t.to_string()));
                }
            }
            if fr.glyf().is_ok() && fr.loca(None).is_ok() {
                let n = fr.maxp().map(|m| m.num_glyphs() as u32).unwrap_or(0);
                let mut cps = Vec::new();
                if let Ok(cmap) = fr.cmap() {
                    for rec in cmap.encoding_records() {
                        if let Ok(st) = rec.subtable(cmap.offset_data()) {
                            match st {
                                write_fonts::read::tables::cmap::CmapSubtable::Format4(s) => cps.extend(s.iter().map(|(c, _)| c).take(200)),
                                write_fonts::read::tables::cmap::CmapSubtable::Format12(s) => cps.extend(s.iter().map(|(c, _)| c).take(200)),
                                _ => {}
                            }
                        }
                    }
                }
                cps.sort();
                cps.dedup();
                if n > 0 && f.data.len() < 400_000 && fr.cmap().is_ok() && fr.head().is_ok() && fr.hmtx().is_ok() {
                    subsettable.push((f.name.clone(), n, cps));
                }
            }
        }
        Pool { roundtrips, subsettable }
    })
}

pub fn gen_job(rng: &mut Rng, heavy_ok: bool) -> Job {
    let p = pool();
    let w = if heavy_ok { [40u32, 6, 3, 6, 6, 8, 8, 6, 8, 9, 6, 6, 3, 7] } else { [60, 0, 0, 4, 4, 8, 8, 6, 6, 4, 5, 5, 0, 5] };
    match rng.weighted(&w) {
        0 => {
            let (f, t) = rng.pick(&p.roundtrips).clone();
            if (t == "GPOS" || t == "GSUB") && rng.chance(1, 3) {
                Job::RoundtripAfterAbort { font: f, tag: t, part: rng.below(4) as u8 }
            } else {
                Job::Roundtrip { font: f, tag: t }
            }
        }
        1 => {
            // sizes from well under to a few times the 64 KiB limit
            let n = 1 + rng.below(6) as usize;
            let mut ranges = Vec::new();
            let mut lo = 1u16;
            for _ in 0..n {
                let len = 4 + rng.below(24) as u16;
                ranges.push((lo, lo + len));
                lo += len + 80;
            }
            Job::BigPairPos { ranges, width: *rng.pick(&[20u16, 90, 165]) }
        }
        2 => Job::BigRsub { n: *rng.pick(&[200u16, 1500, 3279, 3400]) },
        3 => Job::PairBuilder { firsts: 1 + rng.below(60) as u16, seconds: 1 + rng.below(40) as u16, classes: rng.below(12) as u16, seed: rng.below(8) },
        4 => {
            let nb = if rng.chance(1, 6) { 3000 } else { 200 };
            Job::MarkBase { marks: 1 + rng.below(40) as u16, bases: 1 + rng.below(nb) as u16, classes: 1 + rng.below(5) as u16, seed: rng.below(8) }
        }
        5 => Job::Gvar { glyphs: 1 + rng.below(40) as u16, axes: 1 + rng.below(3) as u16, seed: rng.below(8) },
        6 => {
            let nr = if rng.chance(1, 5) { 600 } else { 60 };
            Job::Ivs { rows: 1 + rng.below(nr) as u16, regions: 1 + rng.below(8) as u16, axes: 1 + rng.below(3) as u16, seed: rng.below(8) }
        }
        7 => Job::Cmap { n: 1 + rng.below(300) as u16, seed: rng.below(8) },
        8 => {
            let f = &rng.pick(&p.roundtrips).0;
            Job::FontBuild { font: f.clone(), seed: rng.below(4) }
        }
        10 => Job::SinglePos { groups: 2 + rng.below(6) as u16, group_size: 2 + rng.below(8) as u16, extra_formats: rng.below(5) as u16, seed: rng.below(6) },
        11 => Job::IftApply { seed: rng.below(400) },
        12 => Job::ManyLookups { lookups: *rng.pick(&[12u16, 30, 40, 56]), glyphs: *rng.pick(&[400u16, 900, 1200]), odd_one: rng.chance(1, 3) },
        13 => {
            let (f, n, cps) = rng.pick(&p.subsettable).clone();
            let gids: Vec<u32> = (0..rng.below(4)).map(|_| rng.below(n as u64) as u32).collect();
            let mut us: Vec<u32> = if cps.is_empty() { vec![] } else { (0..2 + rng.below(10)).map(|_| *rng.pick(&cps)).collect() };
            us.sort();
            us.dedup();
            Job::SubsetReusedBuffer { font: f, gids, unicodes: us, flags: *rng.pick(&[0u16, 2, 0x40]), flip: rng.below(1 << 16) as u32 }
        }
        _ => {
            let (f, n, cps) = rng.pick(&p.subsettable).clone();
            let mut gids = Vec::new();
            for _ in 0..rng.below(6) {
                gids.push(rng.below(n as u64) as u32);
            }
            let mut us = Vec::new();
            if !cps.is_empty() {
                for _ in 0..rng.below(8) {
                    us.push(*rng.pick(&cps));
                }
            }
            gids.sort();
            gids.dedup();
            us.sort();
            us.dedup();
            Job::Subset { font: f, gids, unicodes: us, flags: *rng.pick(&[0u16, 1, 2, 0x10, 0x40, 0x43]) }
        }
    }
}

// ------------------------------------------------------------------ engine

#[derive(Clone, Debug, Serialize, Deserialize)]
pub struct Trace {
    pub hash_seed: u64,
    /// value of the process-wide object counter when the run starts
    /// ("n objects compiled earlier in this process")
    pub counter_bump: u64,
    /// unrelated prior jobs executed by the main task before the concurrent phase
    pub prior: Vec<Job>,
    /// jobs per task
    pub tasks: Vec<Vec<Job>>,
    pub sched: SchedSpec,
    #[serde(default)]
    pub schedule: Recorded,
}

pub struct CompileDeterminism;

/// Reference digests from a quiet world: one OS thread, no simulator, hash seed 0, computed
/// once per process per job instance.
fn reference(job: &Job) -> JobOut {
    static REF: std::sync::OnceLock<Mutex<HashMap<u64, JobOut>>> = std::sync::OnceLock::new();
    let m = REF.get_or_init(|| Mutex::new(HashMap::new()));
    let k = job.key();
    if let Some(v) = m.lock().unwrap().get(&k) {
        return v.clone();
    }
    // the reference of a reused-buffer subset is the subset of the pristine bytes with no earlier run at all
    let j = match job {
        Job::SubsetReusedBuffer { font, gids, unicodes, flags, .. } => Job::Subset { font: font.clone(), gids: gids.clone(), unicodes: unicodes.clone(), flags: *flags },
        // ... and of a compilation that follows an aborted one, the compilation alone
        Job::RoundtripAfterAbort { font, tag, .. } => Job::Roundtrip { font: font.clone(), tag: tag.clone() },
        other => other.clone(),
    };
    let out = hashseed::run_on_fresh_thread(0, 16 << 20, move || {
        write_fonts::verif_set_object_counter(0);
        run_job(&j)
    }).unwrap_or(JobOut::Err("refpanic".into()));
    m.lock().unwrap().insert(k, out.clone());
    out
}

impl Engine for CompileDeterminism {
    type Trace = Trace;
    fn name(&self) -> &'static str {
        "compile_determinism"
    }
    fn rule(&self) -> &'static str {
        "case = (hash seed, counter offset, prior jobs, 2-4 tasks x 1-4 compile jobs, scheduling strategy); distinct by hash of that tuple; non-trivial iff >=2 tasks ran, >=1 task switch happened at an object-id allocation and >=1 digest comparison ran"
    }
    fn components(&self) -> &'static str {
        "real: write-fonts dump_table/graph packing/builders, FontBuilder, klippa::subset_font, std HashMap (keys controlled through getrandom interposition); simulated: OS scheduler (shuttle coroutines + TraceScheduler), process history (counter bump hook)"
    }
    fn generate(&self, case_seed: u64) -> Trace {
        let mut rng = Rng::new(case_seed);
        let heavy = rng.chance(1, 12);
        let ntasks = 2 + rng.below(3) as usize;
        let same = rng.chance(1, 3);
        let mut tasks: Vec<Vec<Job>> = Vec::new();
        let shared_job = gen_job(&mut rng, heavy);
        for _ in 0..ntasks {
            let k = 1 + rng.below(if heavy { 2 } else { 4 }) as usize;
            let mut js = Vec::new();
            for _ in 0..k {
                if same && rng.chance(2, 3) {
                    js.push(shared_job.clone());
                } else {
                    js.push(gen_job(&mut rng, heavy));
                }
            }
            tasks.push(js);
        }
        let prior = (0..rng.below(4)).map(|_| gen_job(&mut rng, false)).collect();
        let counter_bump = *rng.pick(&[0u64, 0, 1, 1 << 20, (1 << 32) + 7, 1 << 40, u32::MAX as u64 - 3]);
        Trace { hash_seed: rng.next_u64() | 1, counter_bump, prior, tasks, sched: SchedSpec::generate(&mut rng, ntasks as u32), schedule: vec![] }
    }

    fn execute(&self, t: &mut Trace, stats: &mut Stats) -> Verdict {
        let _ = (corpus::corpus(), pool());
        // references first (quiet world)
        let mut refs: HashMap<u64, JobOut> = HashMap::new();
        for j in t.prior.iter().chain(t.tasks.iter().flatten()) {
            refs.entry(j.key()).or_insert_with(|| reference(j));
        }
        let results: Arc<Mutex<Vec<(usize, usize, JobOut)>>> = Arc::new(Mutex::new(Vec::new()));
        let tt = t.clone();
        let res2 = results.clone();
        let replay = if t.schedule.is_empty() { None } else { Some(t.schedule.clone()) };
        let sim = hashseed::run_on_fresh_thread(t.hash_seed, 32 << 20, move || {
            let tt2 = tt.clone();
            let res3 = res2.clone();
            sched::run_sim(&tt.sched, replay.as_ref(), move || {
                write_fonts::verif_set_object_counter(tt2.counter_bump);
                for (i, j) in tt2.prior.iter().enumerate() {
                    let o = run_job(j);
                    res3.lock().unwrap().push((usize::MAX, i, o));
                }
                let mut hs = Vec::new();
                for (ti, jobs) in tt2.tasks.iter().enumerate() {
                    let jobs = jobs.clone();
                    let res4 = res3.clone();
                    hs.push(shuttle::thread::spawn(move || {
                        for (ji, j) in jobs.iter().enumerate() {
                            sched::harness_point();
                            let o = run_job(j);
                            res4.lock().unwrap().push((ti, ji, o));
                        }
                    }));
                }
                for h in hs {
                    let _ = h.join();
                }
            })
        });
        let sim = match sim {
            Ok(s) => s,
            Err(_) => return Verdict::Inconclusive("simulation thread panicked".into()),
        };
        if sim.panicked {
            return Verdict::Inconclusive("shuttle execution aborted".into());
        }
        if t.schedule.is_empty() {
            t.schedule = sim.recorded.clone();
        }
        stats.add("sched.decisions", sim.decisions);
        stats.add("sched.task_switches", sim.switches);
        stats.add("sched.points.object_id_next", sim.sites.per_site[0]);
        stats.add("probe.switch_at_object_id_allocation", sim.sites.task_switches_at_points);
        if sim.replay_mismatch > 0 {
            stats.add("sched.replay_choice_not_runnable", sim.replay_mismatch);
        }
        if t.counter_bump > u32::MAX as u64 {
            stats.bump("fault.history.counter_beyond_u32");
        } else if t.counter_bump > 0 {
            stats.bump("fault.history.counter_offset");
        }
        if !t.prior.is_empty() {
            stats.bump("fault.history.prior_jobs");
        }
        stats.bump("fault.hash_seed.varied");
        match &t.sched.strategy {
            sched::Strategy::Uniform => stats.bump("sched.strategy.uniform"),
            sched::Strategy::Preempt { .. } => stats.bump("sched.strategy.preempt"),
            sched::Strategy::RoundRobin { .. } => stats.bump("sched.strategy.round_robin"),
            sched::Strategy::Starve { .. } => stats.bump("sched.strategy.starve"),
        }
        stats.state(sim.sites.interleaving);
        let results = results.lock().unwrap();
        let mut d = Digest::new();
        let mut compared = 0u64;
        let mut sorted: Vec<&(usize, usize, JobOut)> = results.iter().collect();
        sorted.sort_by_key(|r| (r.0, r.1));
        let expected = t.prior.len() + t.tasks.iter().map(|j| j.len()).sum::<usize>();
        if sorted.len() != expected {
            return Verdict::Inconclusive(format!("{} of {} jobs reported", sorted.len(), expected));
        }
        for (ti, ji, out) in sorted {
            let job = if *ti == usize::MAX { &t.prior[*ji] } else { &t.tasks[*ti][*ji] };
            let want = &refs[&job.key()];
            compared += 1;
            stats.bump("oracle.digest_vs_quiet_reference");
            if let JobOut::Err(e) = out {
                stats.bump_dyn(format!("job_err.{e}"));
            }
            match out {
                JobOut::Err(e) if e == "PackingFailed" => stats.bump("probe.job_hit_packing_failed"),
                JobOut::Bytes { len, .. } if *len > 65536 => stats.bump("probe.output_beyond_64k"),
                _ => {}
            }
            if out != want {
                let who = if *ti == usize::MAX { "prior".to_string() } else { format!("task {ti}") };
                return Verdict::Fail(Violation::new(
                    "C07",
                    "C07.digest_differs_from_quiet_reference",
                    format!("{who} job {ji} {:?}: got {:?}, quiet-world reference {:?}", job, out, want),
                ));
            }
            match out {
                JobOut::Bytes { digest, .. } => d.u64(*digest),
                JobOut::Err(e) => d.str(e),
            }
        }
        let sig = fnv(serde_json::to_string(&(&t.hash_seed, &t.counter_bump, &t.prior, &t.tasks, &t.sched)).unwrap_or_default().as_bytes());
        Verdict::Pass { digest: mix(d.finish(), sim.sites.interleaving), sig, nontrivial: t.tasks.len() >= 2 && sim.sites.task_switches_at_points >= 1 && compared >= 1 }
    }

    fn shrink(&self, t: &Trace) -> Vec<Trace> {
        let mut out = Vec::new();
        // fewer prior jobs
        for i in 0..t.prior.len() {
            let mut c = t.clone();
            c.prior.remove(i);
            c.schedule.clear();
            out.push(c);
        }
        // fewer tasks / jobs (schedule no longer fits: regenerate from the strategy)
        if t.tasks.len() > 1 {
            for i in 0..t.tasks.len() {
                let mut c = t.clone();
                c.tasks.remove(i);
                c.schedule.clear();
                out.push(c);
            }
        }
        for i in 0..t.tasks.len() {
            if t.tasks[i].len() > 1 {
                for j in 0..t.tasks[i].len() {
                    let mut c = t.clone();
                    c.tasks[i].remove(j);
                    c.schedule.clear();
                    out.push(c);
                }
            }
        }
        if t.counter_bump != 0 {
            let mut c = t.clone();
            c.counter_bump = 0;
            out.push(c);
        }
        for s in sched::shrink_schedule(&t.schedule) {
            let mut c = t.clone();
            c.schedule = s;
            out.push(c);
        }
        out
    }
}

// ------------------------------------------------------------------ fresh processes

/// The same jobs compiled in this process and in fresh processes (new address space, new allocator
/// state, empty counter history): outputs must agree. Covers what no in-process seam controls:
/// dependence on addresses or on per-process state.
#[derive(Clone, Debug, Serialize, Deserialize)]
pub struct CrossTrace {
    pub jobs: Vec<Job>,
    pub hash_seeds: Vec<u64>,
    /// one per fresh process: seed of the allocation history that runs before the jobs and leaves the
    /// allocator's free lists in a chosen, scrambled address order (0 = none)
    #[serde(default)]
    pub layout_seeds: Vec<u64>,
}

/// Heap-layout seam: a seed-determined burst of allocations of the sizes compilation uses, half of
/// them freed in a shuffled order. The allocator hands freed chunks back in (an image of) that order,
/// so the relative address order of the objects the jobs allocate afterwards differs from process
/// to process by choice instead of by the kernel's luck. The survivors are returned and stay alive.
pub fn scramble_heap(seed: u64) -> Vec<Vec<u8>> {
    if seed == 0 {
        return Vec::new();
    }
    let mut rng = Rng::new(seed);
    let sizes = [8usize, 16, 24, 32, 40, 48, 64, 80, 96, 128, 192, 256, 384, 512, 1024, 2048, 4096, 16384];
    let n = 2000 + rng.below(6000) as usize;
    let mut held: Vec<Vec<u8>> = (0..n).map(|_| Vec::with_capacity(*rng.pick(&sizes) + rng.below(8) as usize)).collect();
    rng.shuffle(&mut held);
    let keep = held.len() / 2;
    while held.len() > keep {
        held.pop();
    }
    held
}

pub struct CrossProcess;

/// `verif-sim jobdigest <hash seed> <json jobs>`: prints one line per job.
pub fn jobdigest_main(hash_seed: u64, layout_seed: u64, jobs_json: &str) -> i32 {
    let jobs: Vec<Job> = match serde_json::from_str(jobs_json) {
        Ok(j) => j,
        Err(_) => return 2,
    };
    crate::core::panics::install();
    let outs = hashseed::run_on_fresh_thread(hash_seed, 32 << 20, move || {
        // on the thread that runs the jobs: glibc gives each thread its own arena
        let held = scramble_heap(layout_seed);
        let r = jobs.iter().map(run_job).collect::<Vec<_>>();
        drop(held);
        r
    })
    .unwrap_or_default();
    for o in outs {
        match o {
            JobOut::Bytes { digest, len } => println!("B {digest:016x} {len}"),
            JobOut::Err(e) => println!("E {e}"),
        }
    }
    0
}

fn out_line(o: &JobOut) -> String {
    match o {
        JobOut::Bytes { digest, len } => format!("B {digest:016x} {len}"),
        JobOut::Err(e) => format!("E {e}"),
    }
}

impl Engine for CrossProcess {
    type Trace = CrossTrace;
    fn name(&self) -> &'static str {
        "compile_fresh_processes"
    }
    fn rule(&self) -> &'static str {
        "case = 2-6 compile jobs executed in this worker process and again in two freshly started processes (new address space, allocator and counter state) under different hash seeds and, in the fresh processes, after a seed-chosen allocation history that scrambles the allocator's free lists (relative address order of later objects); per-job output digests must agree; non-trivial iff >=1 job produced bytes"
    }
    fn components(&self) -> &'static str {
        "real: write-fonts / klippa compilation in separate OS processes; simulated: hash seeds (getrandom interposition), heap layout history (scramble_heap); the kernel still decides the address-space base"
    }
    fn generate(&self, case_seed: u64) -> CrossTrace {
        let mut rng = Rng::new(case_seed);
        let heavy = rng.chance(1, 10);
        let jobs = (0..2 + rng.below(5)).map(|_| gen_job(&mut rng, heavy)).collect();
        let hash_seeds = vec![rng.next_u64() | 1, rng.next_u64() | 1];
        CrossTrace { jobs, hash_seeds, layout_seeds: vec![rng.next_u64() | 1, rng.next_u64() | 1] }
    }
    fn execute(&self, t: &mut CrossTrace, stats: &mut Stats) -> Verdict {
        let _ = (corpus::corpus(), pool());
        let here: Vec<String> = t.jobs.iter().map(|j| out_line(&reference(j))).collect();
        let json = serde_json::to_string(&t.jobs).unwrap_or_default();
        let exe = match std::env::current_exe() {
            Ok(e) => e,
            Err(_) => return Verdict::Inconclusive("no current_exe".into()),
        };
        for (pi, hs) in t.hash_seeds.iter().enumerate() {
            let layout = t.layout_seeds.get(pi).copied().unwrap_or(0);
            if layout != 0 {
                stats.bump("fault.process.scrambled_heap_layout");
            }
            let out = std::process::Command::new(&exe).arg("jobdigest").arg(hs.to_string()).arg(&json).arg(layout.to_string()).output();
            let Ok(out) = out else { return Verdict::Inconclusive("cannot start a fresh process".into()) };
            let lines: Vec<String> = String::from_utf8_lossy(&out.stdout).lines().map(|l| l.to_string()).collect();
            if lines.len() != here.len() {
                return Verdict::Inconclusive(format!("fresh process reported {} of {} jobs", lines.len(), here.len()));
            }
            stats.bump("fault.process.fresh_process");
            for (i, (a, b)) in here.iter().zip(lines.iter()).enumerate() {
                stats.bump("oracle.digest_vs_fresh_process");
                if a != b {
                    return Verdict::Fail(Violation::new("C07", "C07.digest_differs_between_processes", format!("job {i} {:?}: this process `{a}`, fresh process (hash seed {hs}) `{b}`", t.jobs[i])));
                }
            }
        }
        let mut d = Digest::new();
        for l in &here {
            d.str(l);
        }
        Verdict::Pass { digest: d.finish(), sig: fnv(json.as_bytes()), nontrivial: here.iter().any(|l| l.starts_with('B')) }
    }
    fn shrink(&self, t: &CrossTrace) -> Vec<CrossTrace> {
        crate::core::drop_chunks(&t.jobs).into_iter().filter(|j| !j.is_empty()).map(|jobs| CrossTrace { jobs, hash_seeds: t.hash_seeds.clone(), layout_seeds: t.layout_seeds.clone() }).collect()
    }
}
