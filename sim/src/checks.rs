//! Which scenarios decide which property, and with what budget per tier.

use crate::core::runner::{CheckDef, Part};
use crate::core::{Erased, Scenario};
use crate::engines;

fn part(sc: Box<dyn Scenario>, quick: u64, thorough: u64, panic_prop: &'static str, cap: u64) -> Part {
    Part { scenario: sc, quick, thorough, panic_prop, case_cap_s: cap, hang_window_s: 0 }
}

/// C13 promises a bounded number of visited paint nodes per paint: a paint that is still running alone after
/// ten times the cap is a violation, however it ends.
fn paint_part(quick: u64, thorough: u64) -> Part {
    Part { hang_window_s: 200, ..part(Box::new(Erased(engines::paintmon::PaintMonitor)), quick, thorough, "C13", 20) }
}

pub fn check(property: &str) -> Option<CheckDef> {
    match property {
        "C07" => Some(CheckDef {
            property: "C07",
            level: "exploration",
            parts: vec![
                part(Box::new(Erased(engines::compile::CompileDeterminism)), 120_000, 2_500_000, "C07", 20),
                part(Box::new(Erased(engines::compile::CrossProcess)), 3_000, 60_000, "C07", 60),
            ],
            assumptions: vec![
                "shuttle coroutines stand in for OS threads: only the interleaving of object-id allocations and job boundaries is explored, which is the only shared state of compilation (one AtomicU64)",
                "std HashMap keys are the only unseeded randomness; they are controlled through the getrandom symbol",
                "reference digests come from the same build running alone; only agreement is required, no golden bytes",
            ],
        }),
        "C18" => Some(CheckDef {
            property: "C18",
            level: "fault_enumeration",
            parts: vec![
                part(Box::new(Erased(engines::ift::IftFaultFree)), 100_000, 2_000_000, "C02", 20),
                part(Box::new(Erased(engines::ift::IftFaulty)), 200_000, 4_000_000, "C02", 20),
                part(Box::new(Erased(engines::ift::IftDecoderEnum)), 15_000, 300_000, "C02", 90),
            ],
            assumptions: vec![
                "the reference model and the IFT encoder are written from the specification and the table layouts, calibrated once against the unchanged tree",
                "patches carry brotli streams made of uncompressed meta-blocks, decoded by the real C decoder; dictionary-dependent diffs are therefore not exercised",
                "carriers: glyf/loca short and long, gvar short and long, CFF and CFF2 charstrings INDEXes with offset sizes 1-4 (worlds sized at and around the offset-size limits); the charstrings offset of a CFF/CFF2 font is taken from the IFT table only (calibrated: a CFF glyph patch on a font without IFT table is a predicted error)",
            ],
        }),
        "C19" => Some(CheckDef {
            property: "C19",
            level: "exploration",
            parts: vec![
                part(Box::new(Erased(engines::ift::IftFaultFree)), 150_000, 3_000_000, "C02", 20),
                part(Box::new(Erased(engines::ift::IftFaulty)), 250_000, 5_000_000, "C02", 20),
            ],
            assumptions: vec![
                "intersection and grouping rules are modelled from the property statement and the specification's algorithms; child entries are evaluated regardless of their own ignored flag (calibrated against the unchanged tree)",
                "liveness is bounded progress: every Ok round applies a new URI; fixpoint within (#distinct URIs + #definitions + 2) rounds after the last fault",
            ],
        }),
        "C12" => Some(CheckDef {
            property: "C12",
            level: "exploration",
            parts: vec![
                part(Box::new(Erased(engines::drawhist::DrawHistory { stale: false })), 1_500_000, 25_000_000, "C02", 20),
                part(Box::new(Erased(engines::drawhist::ConcurrentDraws)), 300_000, 6_000_000, "C02", 20),
            ],
            assumptions: vec![
                "the reference for every draw is a freshly constructed instance of the same configuration with library memory and no location on the same thread",
                "state leaks are made visible by synthetic fonts whose glyph programs read storage, CVT, function/instruction definitions and twilight points they never wrote",
            ],
        }),
        "C14" => Some(CheckDef {
            property: "C14",
            level: "exploration",
            parts: vec![
                part(Box::new(Erased(engines::histmodels::IntSetHistory)), 120_000, 2_500_000, "C14", 20),
                part(Box::new(Erased(engines::histmodels::SparseBitSetCodec)), 25_000, 500_000, "C14", 20),
                part(Box::new(Erased(engines::histmodels::RangeSetHistory)), 1_000_000, 20_000_000, "C14", 20),
            ],
            assumptions: vec![
                "integer sets are single-owner values: no schedule, clock or I/O exists for them; what is explored is operation histories against a reference model (the fault and schedule axes are empty and reported as such)",
                "Ord is modelled as the lexicographic order of the ascending member sequences",
                "the sparse-bit-set specification decoder is the harness's own reading of the IFT specification text",
            ],
        }),
        "C06" => Some(CheckDef {
            property: "C06",
            level: "exploration",
            parts: vec![
                part(Box::new(Erased(engines::histmodels::FontBuilderHistory)), 1_000_000, 20_000_000, "C06", 20),
                part(Box::new(Erased(engines::ift::IftFaultFree)), 60_000, 1_200_000, "C02", 20),
                part(Box::new(Erased(engines::ift::IftFaulty)), 60_000, 1_200_000, "C02", 20),
            ],
            assumptions: vec![
                "the builder has no schedule, clock or I/O of its own: its operation histories are checked against a map model; its outputs under faults are monitored on every font the simulated IFT client emits (decoder, transport, crash and persist faults)",
                "reading back uses read_fonts::FontRef (trusted for directory parsing)",
            ],
        }),
        "C13" => Some(CheckDef {
            property: "C13",
            level: "exploration",
            parts: vec![paint_part(3_000_000, 60_000_000)],
            assumptions: vec![
                "paint graphs explored are those reachable by corrupting the COLR tables of the corpus colour fonts (misdirected offset slots, paints overwritten with PaintColrGlyph, bit flips, truncation); hand-built exponential DAGs are out of scope",
                "a traversal that never ends shows up as a worker killed by the per-case wall-clock cap and is confirmed alone with a 10x cap before being reported",
            ],
        }),
        "C01" => Some(CheckDef {
            property: "C01",
            level: "fault_enumeration",
            parts: c01_parts(1),
            assumptions: vec![
                "covers the fault neighbourhoods of the ~50 well-formed corpus images (and a klippa subset of each glyf font for tears), not arbitrary byte strings; silent on table shapes absent from the corpus",
                "walker depth and node budgets belong to the harness and are never a violation; a reader that does not terminate is caught by the per-case wall-clock cap and confirmed alone with a 10x cap",
            ],
        }),
        "C02" => Some(CheckDef {
            property: "C02",
            level: "fault_enumeration",
            parts: c02_parts(1),
            assumptions: vec![
                "explores the fault neighbourhood of well-formed images, patches and histories; a panic reachable only through a purpose-built bytecode or charstring program that no storage or transport fault produces from a real font is outside what this finds",
                "abort, stack exhaustion and runaway loops surface as a dead or timed-out worker process attributed to the case in flight",
            ],
        }),
        "C20" => Some(CheckDef {
            property: "C20",
            level: "fault_enumeration",
            parts: {
                let mut v = c01_parts(2);
                v.extend(c02_parts(2));
                v.push(paint_part(500_000, 10_000_000));
                // integer sets and the sparse-bit-set codec are what the IFT client decodes patch maps with
                v.push(part(Box::new(Erased(engines::histmodels::SparseBitSetCodec)), 12_000, 250_000, "C14", 20));
                v.push(part(Box::new(Erased(engines::histmodels::IntSetHistory)), 40_000, 800_000, "C14", 20));
                // subsetting is named by C20 only; plain panics of the subsetter on damaged fonts belong to no listed property
                v.push(part(Box::new(Erased(engines::images::SubsetImages)), 12_000, 400_000, "C17", 20));
                v
            },
            assumptions: vec![
                "same generators as C01/C02/C13/C18/C19 executed in the overflow-checked, debug-assertion build (profile strict); only overflow-class panics, and assertion failures that do not reproduce in the plain build, count for C20",
            ],
        }),
        _ => None,
    }
}

/// `div` scales the budgets down (C20 runs the same generators in the slower strict build).
fn c01_parts(div: u64) -> Vec<Part> {
    vec![
        part(Box::new(Erased(engines::images::ReadImages)), 400_000 / div, 8_000_000 / div, "C01", 20),
        part(Box::new(Erased(engines::images::ReadEnum { skrifa: false })), 2_800 / div, 11_200 / div, "C01", 90),
        part(Box::new(Erased(engines::images::SkewedArgs)), 300_000 / div, 6_000_000 / div, "C01", 20),
        part(Box::new(Erased(engines::images::ReadWindowEnum)), 1_600 / div, engines::images::table_window_count() / div, "C01", 90),
    ]
}

fn c02_parts(div: u64) -> Vec<Part> {
    vec![
        part(Box::new(Erased(engines::images::SkrifaImages)), 80_000 / div, 2_000_000 / div, "C02", 20),
        part(Box::new(Erased(engines::images::ReadEnum { skrifa: true })), 700 / div, 5_600 / div, "C02", 90),
        part(Box::new(Erased(engines::images::OutlineBitEnum)), engines::images::outline_chunk_count_quick() / div, 12 * engines::images::outline_chunk_count_quick() / div, "C02", 90),
        part(Box::new(Erased(engines::drawhist::DrawHistory { stale: true })), 600_000 / div, 12_000_000 / div, "C02", 20),
        part(Box::new(Erased(engines::ift::IftFaultFree)), 50_000 / div, 1_000_000 / div, "C02", 20),
        part(Box::new(Erased(engines::ift::IftFaulty)), 100_000 / div, 2_000_000 / div, "C02", 20),
        part(Box::new(Erased(engines::ift::IftHostile)), 150_000 / div, 3_000_000 / div, "C02", 20),
        part(Box::new(Erased(engines::hintops::HintOps)), 1_500_000 / div, 30_000_000 / div, "C02", 20),
    ]
}

pub const ALL: &[&str] = &["C01", "C02", "C06", "C07", "C12", "C13", "C14", "C18", "C19", "C20"];
