//! C13: colour painting terminates with balanced, correctly nested callbacks.
//! Pointer-corruption faults on the COLR tables of the corpus colour fonts; the client's
//! paint-from-cache callback answers are drawn by the simulator; the recorded callback
//! history is checked by a stack monitor.

use crate::core::rng::{fnv, Digest, Rng};
use crate::core::{drop_chunks, Engine, Stats, Verdict, Violation};
use crate::corpus;
use serde::{Deserialize, Serialize};
use skrifa::color::{Brush, ColorGlyphFormat, ColorPainter, CompositeMode, PaintCachedColorGlyph, PaintError, Transform};
use skrifa::instance::{LocationRef, NormalizedCoord, Size};
use skrifa::raw::types::{BoundingBox, Tag};
use skrifa::raw::{FontRef, TableProvider};
use skrifa::{GlyphId, MetadataProvider};
use std::sync::OnceLock;

pub struct ColorFont {
    pub name: String,
    pub data: &'static [u8],
    pub colr: Vec<u8>,
    pub n_glyphs: u32,
    pub n_axes: usize,
    /// byte offsets (within COLR) of 32-bit paint offset slots with their base: (slot position, base)
    pub layer_slots: Vec<(usize, usize)>,
    pub base_slots: Vec<(usize, usize, u16)>,
    /// (base glyph id, absolute offset within COLR of a VarIndexBase field reachable from its root paint)
    pub var_fields: Vec<(u16, usize)>,
    /// (base glyph id, absolute offset within COLR) of every paint record reachable from a root paint
    pub paints: Vec<(u16, usize)>,
}

/// Byte-level walk over the paint graph (formats and child offsets from the COLR specification)
/// collecting the VarIndexBase fields of variable paints.
fn collect_var_fields(colr: &[u8], at: usize, layers: &[(usize, usize)], roots: &std::collections::BTreeMap<u16, usize>, depth: u32, seen: &mut std::collections::BTreeSet<usize>, out: &mut Vec<usize>, paints: &mut Vec<usize>) {
    if depth > 24 || !seen.insert(at) {
        return;
    }
    let Some(fmt) = colr.get(at).copied() else { return };
    paints.push(at);
    let off24 = |p: usize| -> Option<usize> { colr.get(p..p + 3).map(|b| ((b[0] as usize) << 16) | ((b[1] as usize) << 8) | b[2] as usize) };
    let vib = match fmt {
        3 => Some(5),
        5 | 7 => Some(16),
        9 | 19 | 31 => Some(12),
        15 | 17 | 29 => Some(8),
        21 | 25 => Some(6),
        23 | 27 => Some(10),
        _ => None,
    };
    if let Some(v) = vib {
        if at + v + 4 <= colr.len() {
            out.push(at + v);
        }
    }
    match fmt {
        1 => {
            if at + 6 <= colr.len() {
                let n = colr[at + 1] as usize;
                let first = be32(colr, at + 2).unwrap_or(0) as usize;
                for k in first..(first + n).min(layers.len()) {
                    let (slot, base) = layers[k];
                    if let Some(o) = be32(colr, slot) {
                        collect_var_fields(colr, base + o as usize, layers, roots, depth + 1, seen, out, paints);
                    }
                }
            }
        }
        11 => {
            if at + 3 <= colr.len() {
                let gid = u16::from_be_bytes([colr[at + 1], colr[at + 2]]);
                if let Some(r) = roots.get(&gid) {
                    collect_var_fields(colr, *r, layers, roots, depth + 1, seen, out, paints);
                }
            }
        }
        13 => {
            if let (Some(c), Some(t)) = (off24(at + 1), off24(at + 4)) {
                if at + t + 28 <= colr.len() {
                    out.push(at + t + 24);
                }
                collect_var_fields(colr, at + c, layers, roots, depth + 1, seen, out, paints);
            }
        }
        32 => {
            if let (Some(a), Some(b)) = (off24(at + 1), off24(at + 5)) {
                collect_var_fields(colr, at + a, layers, roots, depth + 1, seen, out, paints);
                collect_var_fields(colr, at + b, layers, roots, depth + 1, seen, out, paints);
            }
        }
        10 | 12 | 14..=31 => {
            if let Some(c) = off24(at + 1) {
                collect_var_fields(colr, at + c, layers, roots, depth + 1, seen, out, paints);
            }
        }
        _ => {}
    }
}

fn be32(b: &[u8], at: usize) -> Option<u32> {
    b.get(at..at + 4).map(|x| u32::from_be_bytes([x[0], x[1], x[2], x[3]]))
}

pub fn color_fonts() -> &'static [ColorFont] {
    static P: OnceLock<Vec<ColorFont>> = OnceLock::new();
    P.get_or_init(|| {
        let mut v = Vec::new();
        for f in corpus::corpus() {
            let Ok(fr) = FontRef::new(f.data) else { continue };
            let Some(colr) = fr.table_data(Tag::new(b"COLR")) else { continue };
            let colr = colr.as_bytes().to_vec();
            let n_glyphs = fr.maxp().map(|m| m.num_glyphs() as u32).unwrap_or(0);
            let mut layer_slots = Vec::new();
            let mut base_slots = Vec::new();
            let version = u16::from_be_bytes([colr[0], colr[1]]);
            if version >= 1 && colr.len() >= 34 {
                if let (Some(bgl), Some(ll)) = (be32(&colr, 14), be32(&colr, 18)) {
                    let (bgl, ll) = (bgl as usize, ll as usize);
                    if bgl != 0 {
                        if let Some(n) = be32(&colr, bgl) {
                            for i in 0..n as usize {
                                let rec = bgl + 4 + i * 6;
                                if rec + 6 <= colr.len() {
                                    let gid = u16::from_be_bytes([colr[rec], colr[rec + 1]]);
                                    base_slots.push((rec + 2, bgl, gid));
                                }
                            }
                        }
                    }
                    if ll != 0 {
                        if let Some(n) = be32(&colr, ll) {
                            for i in 0..n as usize {
                                let at = ll + 4 + i * 4;
                                if at + 4 <= colr.len() {
                                    layer_slots.push((at, ll));
                                }
                            }
                        }
                    }
                }
            }
            let roots: std::collections::BTreeMap<u16, usize> = base_slots.iter().filter_map(|(slot, base, gid)| be32(&colr, *slot).map(|o| (*gid, base + o as usize))).collect();
            let mut var_fields = Vec::new();
            let mut paints = Vec::new();
            for (gid, root) in &roots {
                let mut seen = std::collections::BTreeSet::new();
                let mut out = Vec::new();
                let mut ps = Vec::new();
                collect_var_fields(&colr, *root, &layer_slots, &roots, 0, &mut seen, &mut out, &mut ps);
                for o in out {
                    var_fields.push((*gid, o));
                }
                for o in ps {
                    paints.push((*gid, o));
                }
            }
            v.push(ColorFont { name: f.name.clone(), data: f.data, colr, n_glyphs, n_axes: fr.axes().len(), layer_slots, base_slots, var_fields, paints });
        }
        v
    })
}

#[derive(Clone, Debug, Serialize, Deserialize, PartialEq)]
pub enum ColrFault {
    /// layer slot j := paint that layer slot k points to
    LayerToLayer { j: u32, k: u32 },
    /// layer slot j := root paint of base glyph record r (creates cycles through layer lists)
    LayerToBase { j: u32, r: u32 },
    /// base record r's paint := root paint of base record q
    BaseToBase { r: u32, q: u32 },
    /// base record r's paint := paint of layer k
    BaseToLayer { r: u32, k: u32 },
    /// overwrite the first bytes of base record r's root paint with PaintColrGlyph(glyph of record q)
    RootBecomesColrGlyph { r: u32, q: u32 },
    /// overwrite the first bytes of layer k's paint with PaintColrGlyph(glyph of record q)
    LayerBecomesColrGlyph { k: u32, q: u32 },
    /// the child paint of a PaintGlyph that is base record r's root (or the first PaintGlyph among its
    /// PaintColrLayers layers) becomes PaintColrGlyph(glyph of record r): a certain self-cycle
    GlyphChildBecomesSelf { r: u32 },
    /// base record r's root is PaintColrLayers: the child of the first PaintGlyph among its layers becomes
    /// PaintColrLayers over the very same run (a certain cycle made only of layer runs and a PaintGlyph)
    GlyphChildBecomesOwnLayers { r: u32 },
    /// colour line of the k-th reachable gradient paint: extend byte := `extend` (values above 2 are not
    /// defined), stop offsets rewritten (0 leave, 1 all equal to the first, 2 reversed, 3 all 0x7FFF)
    ColorLine { k: u32, extend: u8, stops: u8 },
    /// 16-bit scalar field `idx` of the k-th reachable paint record := v
    PaintScalar { k: u32, idx: u32, v: u16 },
    /// 32-bit Fixed component `idx` of the matrix of the k-th reachable PaintTransform := v
    MatrixComponent { k: u32, idx: u32, v: u32 },
    /// a chain of n nested paints (kind 0 translate, 1 scale, 2 rotate, 3 skew, 4 PaintGlyph, 5 all of them in turn)
    /// ending in a PaintSolid is appended to the table and base record r's root is redirected to it: a graph that
    /// is deep without being cyclic (offsets only point forward, so no cycle guard sees it)
    DeepChain { r: u32, n: u32, kind: u8 },
    BitFlip { bit: u32 },
    Truncate { keep_permille: u32 },
    /// a 32-bit field (offsets, variation index bases, counts) set to an extreme value
    ExtremeField { at: u32, v: u32 },
    /// the VarIndexBase of the k-th variable paint reachable from some base glyph set to an extreme value
    VarIndexBaseExtreme { k: u32, v: u32 },
}

#[derive(Clone, Debug, Serialize, Deserialize)]
pub struct PaintTrace {
    pub font: usize,
    pub faults: Vec<ColrFault>,
    pub coords: Vec<i16>,
    /// glyphs to paint (in addition to the glyphs of the records the faults touched)
    pub glyphs: Vec<u32>,
    /// answers of paint_cached_color_glyph: 0 = Unimplemented, 1 = Ok, 2 = Err; cycled
    pub cache_answers: Vec<u8>,
    /// client variant: bit 0 = the client implements fill_glyph itself (sees one event instead of clip/fill/pop)
    #[serde(default)]
    pub client: u8,
}

#[derive(Clone, Copy, PartialEq, Debug)]
enum Kind {
    Transform,
    Clip,
    Layer,
}

fn mode_code(m: CompositeMode) -> u8 {
    // the discriminant as the painter sees it (Debug name hashed to a byte keeps this independent of the enum layout)
    (fnv(format!("{m:?}").as_bytes()) & 0xFF) as u8
}

struct Monitor<'a> {
    stack: Vec<Kind>,
    /// composite modes of the open layers, innermost last
    layer_modes: Vec<(u8, String)>,
    events: u64,
    bad: Option<String>,
    answers: &'a [u8],
    cache_calls: usize,
    digest: Digest,
    max_depth: usize,
}

impl Monitor<'_> {
    fn push(&mut self, k: Kind) {
        self.events += 1;
        self.stack.push(k);
        self.max_depth = self.max_depth.max(self.stack.len());
        self.digest.u64(k as u64 + 1);
    }
    fn pop(&mut self, k: Kind) {
        self.events += 1;
        self.digest.u64(k as u64 + 11);
        match self.stack.pop() {
            None => {
                if self.bad.is_none() {
                    self.bad = Some(format!("pop of {k:?} with nothing pushed (event {})", self.events));
                }
            }
            Some(top) if top != k => {
                if self.bad.is_none() {
                    self.bad = Some(format!("pop of {k:?} while the innermost open item is {top:?} (event {})", self.events));
                }
            }
            _ => {}
        }
    }
}

impl ColorPainter for Monitor<'_> {
    fn push_transform(&mut self, _t: Transform) {
        self.push(Kind::Transform)
    }
    fn pop_transform(&mut self) {
        self.pop(Kind::Transform)
    }
    fn push_clip_glyph(&mut self, _g: GlyphId) {
        self.push(Kind::Clip)
    }
    fn push_clip_box(&mut self, _b: BoundingBox<f32>) {
        self.push(Kind::Clip)
    }
    fn pop_clip(&mut self) {
        self.pop(Kind::Clip)
    }
    fn fill(&mut self, _b: Brush<'_>) {
        self.events += 1;
        self.digest.u64(99);
    }
    fn paint_cached_color_glyph(&mut self, _g: GlyphId) -> Result<PaintCachedColorGlyph, PaintError> {
        self.events += 1;
        let a = if self.answers.is_empty() { 0 } else { self.answers[self.cache_calls % self.answers.len()] };
        self.cache_calls += 1;
        match a {
            1 => Ok(PaintCachedColorGlyph::Ok),
            2 => Err(PaintError::GlyphNotFound(GlyphId::new(0))),
            _ => Ok(PaintCachedColorGlyph::Unimplemented),
        }
    }
    fn push_layer(&mut self, m: CompositeMode) {
        self.layer_modes.push((mode_code(m), format!("{m:?}")));
        self.push(Kind::Layer)
    }
    fn pop_layer(&mut self) {
        self.layer_modes.pop();
        self.pop(Kind::Layer)
    }
    // A client that merges layers at pop time is told which mode to merge with: it must be the mode of
    // the innermost open layer, i.e. the one given to the matching push.
    fn pop_layer_with_mode(&mut self, m: CompositeMode) {
        if let Some((code, name)) = self.layer_modes.last() {
            if *code != mode_code(m) && self.bad.is_none() && self.stack.last() == Some(&Kind::Layer) {
                self.bad = Some(format!("pop_layer_with_mode({m:?}) while the innermost open layer was pushed with {name} (event {})", self.events + 1));
            }
        }
        self.pop_layer();
    }
}

/// The same client, but one that implements the combined clip-and-fill operation itself (as the
/// trait documentation recommends); the plain `Monitor` keeps the provided implementation.
struct OwnFill<'a>(Monitor<'a>);

impl ColorPainter for OwnFill<'_> {
    fn push_transform(&mut self, t: Transform) {
        self.0.push_transform(t)
    }
    fn pop_transform(&mut self) {
        self.0.pop_transform()
    }
    fn push_clip_glyph(&mut self, g: GlyphId) {
        self.0.push_clip_glyph(g)
    }
    fn push_clip_box(&mut self, b: BoundingBox<f32>) {
        self.0.push_clip_box(b)
    }
    fn pop_clip(&mut self) {
        self.0.pop_clip()
    }
    fn fill(&mut self, b: Brush<'_>) {
        self.0.fill(b)
    }
    fn fill_glyph(&mut self, _glyph_id: GlyphId, _brush_transform: Option<Transform>, _brush: Brush<'_>) {
        self.0.events += 1;
        self.0.digest.u64(98);
    }
    fn paint_cached_color_glyph(&mut self, g: GlyphId) -> Result<PaintCachedColorGlyph, PaintError> {
        self.0.paint_cached_color_glyph(g)
    }
    fn push_layer(&mut self, m: CompositeMode) {
        self.0.push_layer(m)
    }
    fn pop_layer(&mut self) {
        self.0.pop_layer()
    }
    fn pop_layer_with_mode(&mut self, m: CompositeMode) {
        self.0.pop_layer_with_mode(m)
    }
}

fn apply_faults(cf: &ColorFont, faults: &[ColrFault], touched: &mut Vec<u32>, stats: &mut Stats) -> Vec<u8> {
    let mut c = cf.colr.clone();
    let rd = |c: &[u8], at: usize| be32(c, at).unwrap_or(0) as i64;
    let wr = |c: &mut Vec<u8>, at: usize, v: i64| {
        if v >= 0 && v <= u32::MAX as i64 && at + 4 <= c.len() {
            c[at..at + 4].copy_from_slice(&(v as u32).to_be_bytes());
            true
        } else {
            false
        }
    };
    let nl = cf.layer_slots.len() as u32;
    let nb = cf.base_slots.len() as u32;
    for f in faults {
        match f {
            ColrFault::LayerToLayer { j, k } if nl > 0 => {
                let (sj, _) = cf.layer_slots[(*j % nl) as usize];
                let (sk, _) = cf.layer_slots[(*k % nl) as usize];
                let v = rd(&c, sk);
                if wr(&mut c, sj, v) {
                    stats.bump("fault.colr.layer_slot_redirected_to_layer");
                }
            }
            ColrFault::LayerToBase { j, r } if nl > 0 && nb > 0 => {
                let (sj, lbase) = cf.layer_slots[(*j % nl) as usize];
                let (sr, bbase, gid) = cf.base_slots[(*r % nb) as usize];
                let v = rd(&c, sr) + bbase as i64 - lbase as i64;
                if wr(&mut c, sj, v) {
                    stats.bump("fault.colr.layer_slot_redirected_to_base_glyph_root");
                    touched.push(gid as u32);
                }
            }
            ColrFault::BaseToBase { r, q } if nb > 0 => {
                let (sr, _, gid) = cf.base_slots[(*r % nb) as usize];
                let (sq, _, _) = cf.base_slots[(*q % nb) as usize];
                let v = rd(&c, sq);
                if wr(&mut c, sr, v) {
                    stats.bump("fault.colr.base_slot_redirected_to_base");
                    touched.push(gid as u32);
                }
            }
            ColrFault::BaseToLayer { r, k } if nl > 0 && nb > 0 => {
                let (sr, bbase, gid) = cf.base_slots[(*r % nb) as usize];
                let (sk, lbase) = cf.layer_slots[(*k % nl) as usize];
                let v = rd(&c, sk) + lbase as i64 - bbase as i64;
                if wr(&mut c, sr, v) {
                    stats.bump("fault.colr.base_slot_redirected_to_layer");
                    touched.push(gid as u32);
                }
            }
            ColrFault::RootBecomesColrGlyph { r, q } if nb > 0 => {
                let (sr, bbase, gid) = cf.base_slots[(*r % nb) as usize];
                let (_, _, target) = cf.base_slots[(*q % nb) as usize];
                let at = (rd(&c, sr) + bbase as i64) as usize;
                if at + 3 <= c.len() {
                    c[at] = 11;
                    c[at + 1..at + 3].copy_from_slice(&target.to_be_bytes());
                    stats.bump("fault.colr.root_paint_overwritten_with_colr_glyph");
                    touched.push(gid as u32);
                }
            }
            ColrFault::LayerBecomesColrGlyph { k, q } if nl > 0 && nb > 0 => {
                let (sk, lbase) = cf.layer_slots[(*k % nl) as usize];
                let (_, _, target) = cf.base_slots[(*q % nb) as usize];
                let at = (rd(&c, sk) + lbase as i64) as usize;
                if at + 3 <= c.len() {
                    c[at] = 11;
                    c[at + 1..at + 3].copy_from_slice(&target.to_be_bytes());
                    stats.bump("fault.colr.layer_paint_overwritten_with_colr_glyph");
                    touched.push(target as u32);
                }
            }
            ColrFault::GlyphChildBecomesSelf { r } if nb > 0 => {
                let (sr, bbase, gid) = cf.base_slots[(*r % nb) as usize];
                let root = (rd(&c, sr) + bbase as i64) as usize;
                // find a PaintGlyph (format 10) that is traversed unconditionally
                let mut pg: Option<usize> = None;
                if c.get(root) == Some(&10) {
                    pg = Some(root);
                } else if c.get(root) == Some(&1) && root + 6 <= c.len() && nl > 0 {
                    let n = c[root + 1] as usize;
                    let first = be32(&c, root + 2).unwrap_or(0) as usize;
                    for k in first..(first + n).min(cf.layer_slots.len()) {
                        let (sk, lbase) = cf.layer_slots[k];
                        let at = (rd(&c, sk) + lbase as i64) as usize;
                        if c.get(at) == Some(&10) {
                            pg = Some(at);
                            break;
                        }
                    }
                }
                if let Some(pg) = pg {
                    if pg + 6 <= c.len() {
                        let child = pg + (((c[pg + 1] as usize) << 16) | ((c[pg + 2] as usize) << 8) | c[pg + 3] as usize);
                        if child + 3 <= c.len() && child != pg {
                            c[child] = 11;
                            c[child + 1..child + 3].copy_from_slice(&gid.to_be_bytes());
                            stats.bump("fault.colr.paint_glyph_child_overwritten_with_self_reference");
                            touched.push(gid as u32);
                            // marker for the oracle: this glyph now certainly contains a cycle
                            touched.push(0x8000_0000 | gid as u32);
                        }
                    }
                }
            }
            ColrFault::GlyphChildBecomesOwnLayers { r } if nb > 0 && nl > 0 => {
                // the first base record at or after r whose root is a layer run
                let pick = (0..nb.min(64)).map(|d| cf.base_slots[((*r % nb + d) % nb) as usize]).find(|(sr, bbase, _)| c.get((rd(&c, *sr) + *bbase as i64) as usize) == Some(&1));
                let Some((sr, bbase, gid)) = pick else { continue };
                let root = (rd(&c, sr) + bbase as i64) as usize;
                if c.get(root) == Some(&1) && root + 6 <= c.len() {
                    let n = c[root + 1] as usize;
                    let first = be32(&c, root + 2).unwrap_or(0) as usize;
                    let mut pg: Option<usize> = None;
                    for k in first..(first + n).min(cf.layer_slots.len()) {
                        let (sk, lbase) = cf.layer_slots[k];
                        let at = (rd(&c, sk) + lbase as i64) as usize;
                        if c.get(at) == Some(&10) {
                            pg = Some(at);
                            break;
                        }
                    }
                    if let Some(pg) = pg {
                        if pg + 6 <= c.len() {
                            let child = pg + (((c[pg + 1] as usize) << 16) | ((c[pg + 2] as usize) << 8) | c[pg + 3] as usize);
                            let apart = |a: usize, b: usize| a + 6 <= b || b + 6 <= a;
                            if child + 6 <= c.len() && apart(child, pg) && apart(child, root) {
                                let hdr: [u8; 6] = [c[root], c[root + 1], c[root + 2], c[root + 3], c[root + 4], c[root + 5]];
                                c[child..child + 6].copy_from_slice(&hdr);
                                stats.bump("fault.colr.paint_glyph_child_overwritten_with_own_layer_run");
                                touched.push(gid as u32);
                                touched.push(0x8000_0000 | gid as u32);
                            }
                        }
                    }
                }
            }
            ColrFault::DeepChain { r, n, kind } if nb > 0 => {
                let (sr, bbase, gid) = cf.base_slots[(*r % nb) as usize];
                while c.len() % 4 != 0 {
                    c.push(0);
                }
                let start = c.len();
                for i in 0..*n {
                    let k = if *kind == 5 { (i % 5) as u8 } else { *kind % 5 };
                    let (fmt, size): (u8, u32) = match k {
                        0 => (14, 8),
                        1 => (16, 8),
                        2 => (24, 6),
                        3 => (28, 8),
                        _ => (10, 6),
                    };
                    c.push(fmt);
                    c.extend_from_slice(&size.to_be_bytes()[1..]); // child = the next record
                    match k {
                        0 => c.extend_from_slice(&[0, 1, 0, 1]),       // dx = dy = 1
                        1 => c.extend_from_slice(&[0x40, 0, 0x40, 0]), // scale 1.0
                        2 => c.extend_from_slice(&[0x00, 0x10]),       // a small angle
                        3 => c.extend_from_slice(&[0, 0x10, 0, 0]),
                        _ => c.extend_from_slice(&[0, 0]),             // glyph 0
                    }
                }
                c.extend_from_slice(&[2, 0, 0, 0x40, 0]); // PaintSolid, palette entry 0, alpha 1.0
                if wr(&mut c, sr, start as i64 - bbase as i64) {
                    stats.bump("fault.colr.root_redirected_to_deep_acyclic_chain");
                    touched.push(gid as u32);
                    if *n >= 1000 {
                        // marker for the oracle: far deeper than any depth limit a renderer could mean
                        touched.push(0x4000_0000 | gid as u32);
                    }
                }
            }
            ColrFault::ColorLine { k, extend, stops } => {
                let grads: Vec<&(u16, usize)> = cf.paints.iter().filter(|(_, at)| matches!(cf.colr.get(*at), Some(4..=9))).collect();
                if !grads.is_empty() {
                    let (gid, at) = *grads[*k as usize % grads.len()];
                    let var = cf.colr[at] % 2 == 1;
                    if at + 4 <= c.len() {
                        let cl = at + (((c[at + 1] as usize) << 16) | ((c[at + 2] as usize) << 8) | c[at + 3] as usize);
                        if cl + 3 <= c.len() {
                            c[cl] = *extend;
                            let n = u16::from_be_bytes([c[cl + 1], c[cl + 2]]) as usize;
                            let rec = if var { 10 } else { 6 };
                            let pos = |i: usize| cl + 3 + i * rec;
                            if n > 0 && pos(n - 1) + 2 <= c.len() {
                                let offs: Vec<[u8; 2]> = (0..n).map(|i| [c[pos(i)], c[pos(i) + 1]]).collect();
                                for i in 0..n {
                                    let v = match stops {
                                        1 => offs[0],
                                        2 => offs[n - 1 - i],
                                        3 => [0x7F, 0xFF],
                                        _ => offs[i],
                                    };
                                    c[pos(i)..pos(i) + 2].copy_from_slice(&v);
                                }
                            }
                            stats.bump("fault.colr.colour_line_extend_and_stops_rewritten");
                            touched.push(gid as u32);
                        }
                    }
                }
            }
            ColrFault::PaintScalar { k, idx, v } if !cf.paints.is_empty() => {
                let (gid, at) = cf.paints[*k as usize % cf.paints.len()];
                let fmt = cf.colr[at];
                // (first scalar, record size without VarIndexBase)
                let lay: Option<(usize, usize)> = match fmt {
                    2 | 3 => Some((1, 5)),
                    4 | 5 | 6 | 7 => Some((4, 16)),
                    8 | 9 | 18 | 19 | 30 | 31 => Some((4, 12)),
                    14 | 15 | 16 | 17 | 28 | 29 => Some((4, 8)),
                    20 | 21 | 24 | 25 => Some((4, 6)),
                    22 | 23 | 26 | 27 => Some((4, 10)),
                    _ => None,
                };
                if let Some((start, size)) = lay {
                    let n = (size - start) / 2;
                    let p = at + start + 2 * (*idx as usize % n);
                    if p + 2 <= c.len() {
                        c[p..p + 2].copy_from_slice(&v.to_be_bytes());
                        stats.bump("fault.colr.paint_scalar_set_to_boundary_value");
                        touched.push(gid as u32);
                    }
                }
            }
            ColrFault::MatrixComponent { k, idx, v } => {
                let ts: Vec<&(u16, usize)> = cf.paints.iter().filter(|(_, at)| matches!(cf.colr.get(*at), Some(12 | 13))).collect();
                if !ts.is_empty() {
                    let (gid, at) = *ts[*k as usize % ts.len()];
                    if at + 7 <= c.len() {
                        let m = at + (((c[at + 4] as usize) << 16) | ((c[at + 5] as usize) << 8) | c[at + 6] as usize);
                        let p = m + 4 * (*idx as usize % 6);
                        if p + 4 <= c.len() {
                            c[p..p + 4].copy_from_slice(&v.to_be_bytes());
                            stats.bump("fault.colr.transform_matrix_component_set_to_boundary_value");
                            touched.push(gid as u32);
                        }
                    }
                }
            }
            ColrFault::BitFlip { bit } => {
                if !c.is_empty() {
                    let i = (*bit as usize / 8) % c.len();
                    c[i] ^= 1 << (bit % 8);
                    stats.bump("fault.colr.bit_flip");
                }
            }
            ColrFault::ExtremeField { at, v } => {
                if c.len() > 4 {
                    let a = *at as usize % (c.len() - 4);
                    c[a..a + 4].copy_from_slice(&v.to_be_bytes());
                    stats.bump("fault.colr.field_set_to_extreme");
                }
            }
            ColrFault::VarIndexBaseExtreme { k, v } if !cf.var_fields.is_empty() => {
                let (gid, at) = cf.var_fields[*k as usize % cf.var_fields.len()];
                if at + 4 <= c.len() {
                    c[at..at + 4].copy_from_slice(&v.to_be_bytes());
                    stats.bump("fault.colr.var_index_base_set_to_extreme");
                    touched.push(gid as u32);
                }
            }
            ColrFault::Truncate { keep_permille } => {
                let keep = (c.len() as u64 * *keep_permille as u64 / 1000) as usize;
                c.truncate(keep);
                stats.bump("fault.colr.truncate");
            }
            _ => {}
        }
    }
    c
}

pub struct PaintMonitor;

const EVENT_BUDGET: u64 = 100_000_000;

impl Engine for PaintMonitor {
    type Trace = PaintTrace;
    fn name(&self) -> &'static str {
        "paint_monitor"
    }
    fn rule(&self) -> &'static str {
        "case = corpus colour font + 0-3 COLR faults (paint/layer/base-glyph offset slot overwritten with another slot's target, paint overwritten with PaintColrGlyph, bit flip, truncation) + variation location + answers of the paint-from-cache callback; every touched and sampled glyph painted in both formats; callback history checked by a stack monitor; non-trivial iff >=1 fault landed and >=1 paint ran"
    }
    fn components(&self) -> &'static str {
        "real: skrifa ColorGlyphCollection::get/get_with_format, ColorGlyph::paint/bounding_box, read-fonts COLR; stub: ColorPainter client (monitor) whose paint_cached_color_glyph answers come from the trace; fonts re-assembled with FontBuilder"
    }
    fn generate(&self, case_seed: u64) -> PaintTrace {
        let mut rng = Rng::new(case_seed);
        let fonts = color_fonts();
        let font = rng.usize_below(fonts.len());
        let cf = &fonts[font];
        let nfaults = *rng.pick(&[0usize, 1, 1, 1, 2, 3]);
        let mut faults = Vec::new();
        for _ in 0..nfaults {
            let a = rng.next_u32();
            let b = rng.next_u32();
            faults.push(match rng.below(12) {
                9 => ColrFault::ColorLine { k: a, extend: *rng.pick(&[0u8, 1, 2, 3, 3, 4, 128, 255]), stops: rng.below(4) as u8 },
                10 => ColrFault::PaintScalar { k: a, idx: b, v: *rng.pick(&[0u16, 1, 0x3FFF, 0x4000, 0x7FFF, 0x8000, 0x8001, 0xC000, 0xFFFF]) },
                11 => ColrFault::MatrixComponent { k: a, idx: b, v: *rng.pick(&[0u32, 1, 0x0001_0000, 0x7FFF_FFFF, 0x8000_0000, 0x8000_0001, 0xFFFF_FFFF, 0xFFFF_0000]) },
                0 => ColrFault::LayerToLayer { j: a, k: b },
                1 | 2 => ColrFault::LayerToBase { j: a, r: b },
                3 => ColrFault::BaseToBase { r: a, q: b },
                4 => ColrFault::BaseToLayer { r: a, k: b },
                5 => ColrFault::RootBecomesColrGlyph { r: a, q: if rng.chance(1, 3) { a } else { b } },
                6 => ColrFault::LayerBecomesColrGlyph { k: a, q: b },
                7 if rng.chance(1, 2) => {
                    if rng.chance(1, 3) {
                        ColrFault::DeepChain { r: a, n: *rng.pick(&[63u32, 64, 65, 100, 1000, 1000, 3000]), kind: rng.below(6) as u8 }
                    } else if rng.chance(1, 2) {
                        ColrFault::GlyphChildBecomesSelf { r: a }
                    } else {
                        ColrFault::GlyphChildBecomesOwnLayers { r: a }
                    }
                }
                8 if rng.chance(1, 3) => ColrFault::VarIndexBaseExtreme { k: a, v: *rng.pick(&[0xFFFF_FFFEu32, 0xFFFF_FFFD, 0xFFFF_FFF0, 0x7FFF_FFFF, 0x0001_0000]) },
                8 if rng.chance(1, 2) => ColrFault::ExtremeField { at: a, v: *rng.pick(&[0xFFFF_FFFFu32, 0xFFFF_FFFE, 0x7FFF_FFFF, 0x8000_0000, 0x00FF_FFFF]) },
                7 => ColrFault::BitFlip { bit: rng.below(cf.colr.len() as u64 * 8) as u32 },
                _ => ColrFault::Truncate { keep_permille: 200 + rng.below(800) as u32 },
            });
        }
        const STEPS: [i16; 6] = [-16384, -8192, 0, 3000, 8192, 16384];
        let coords: Vec<i16> = if cf.n_axes > 0 && rng.chance(3, 4) {
            match rng.below(3) {
                0 => (0..cf.n_axes).map(|_| *rng.pick(&STEPS)).collect(),
                1 => {
                    // one or two axes away from the default
                    let mut v = vec![0i16; cf.n_axes];
                    for _ in 0..1 + rng.below(2) {
                        let i = rng.usize_below(cf.n_axes);
                        v[i] = if rng.chance(1, 2) { *rng.pick(&STEPS) } else { (rng.below(32769) as i32 - 16384) as i16 };
                    }
                    v
                }
                _ => (0..cf.n_axes).map(|_| (rng.below(32769) as i32 - 16384) as i16).collect(),
            }
        } else {
            vec![]
        };
        let glyphs = (0..rng.below(6)).map(|_| rng.below(cf.n_glyphs as u64 + 1) as u32).collect();
        let cache_answers = match rng.below(4) {
            0 => vec![],
            1 => vec![1],
            2 => (0..1 + rng.below(5)).map(|_| rng.below(3) as u8).collect(),
            _ => vec![0, 0, 2],
        };
        PaintTrace { font, faults, coords, glyphs, cache_answers, client: if rng.chance(1, 4) { 1 } else { 0 } }
    }
    fn execute(&self, t: &mut PaintTrace, stats: &mut Stats) -> Verdict {
        let cf = &color_fonts()[t.font];
        let mut touched: Vec<u32> = Vec::new();
        let before: u64 = stats.counters.iter().filter(|(k, _)| k.starts_with("fault.colr")).map(|(_, v)| *v).sum();
        let colr = apply_faults(cf, &t.faults, &mut touched, stats);
        let landed = stats.counters.iter().filter(|(k, _)| k.starts_with("fault.colr")).map(|(_, v)| *v).sum::<u64>() - before;
        let Ok(orig) = FontRef::new(cf.data) else { return Verdict::Inconclusive("corpus font does not open".into()) };
        let mut b = write_fonts::FontBuilder::new();
        b.add_raw(Tag::new(b"COLR"), colr);
        b.copy_missing_tables(orig);
        let img = b.build();
        let Ok(font) = FontRef::new(&img) else { return Verdict::Inconclusive("rebuilt font does not open".into()) };
        let coords: Vec<NormalizedCoord> = t.coords.iter().map(|c| NormalizedCoord::from_bits(*c)).collect();
        let cg = font.color_glyphs();
        let certain_cycle: Vec<u32> = touched.iter().filter(|g| **g & 0x8000_0000 != 0).map(|g| g & 0xFFFF).collect();
        let certain_deep: Vec<u32> = touched.iter().filter(|g| **g & 0x4000_0000 != 0).map(|g| g & 0xFFFF).collect();
        touched.retain(|g| *g & 0xC000_0000 == 0);
        // the expectation is only sound when this is the single fault and the client never paints from its cache
        let expect_cycle_error = t.faults.len() == 1 && t.cache_answers.iter().all(|a| *a == 0);
        let mut glyphs = touched.clone();
        glyphs.extend_from_slice(&t.glyphs);
        glyphs.sort_unstable();
        glyphs.dedup();
        let mut d = Digest::new();
        let mut paints = 0u64;
        for g in glyphs {
            for fmt in [ColorGlyphFormat::ColrV1, ColorGlyphFormat::ColrV0] {
                let Some(glyph) = cg.get_with_format(GlyphId::new(g), fmt) else { continue };
                let _ = glyph.bounding_box(LocationRef::new(&coords), Size::new(16.0));
                let m = Monitor { stack: vec![], layer_modes: vec![], events: 0, bad: None, answers: &t.cache_answers, cache_calls: 0, digest: Digest::new(), max_depth: 0 };
                let (r, m) = if t.client & 1 != 0 {
                    let mut c = OwnFill(m);
                    let r = glyph.paint(LocationRef::new(&coords), &mut c);
                    (r, c.0)
                } else {
                    let mut m = m;
                    let r = glyph.paint(LocationRef::new(&coords), &mut m);
                    (r, m)
                };
                paints += 1;
                stats.bump("oracle.C13.callback_history_monitor");
                stats.add("sim.paint_callbacks", m.events);
                if m.events > EVENT_BUDGET {
                    return Verdict::Fail(Violation::new("C13", "C13.bounded_traversal", format!("painting glyph {g} of {} issued {} callbacks", cf.name, m.events)));
                }
                match &r {
                    Ok(()) => {
                        stats.bump("probe.C13.paint_ok");
                        if expect_cycle_error && matches!(fmt, ColorGlyphFormat::ColrV1) && certain_cycle.contains(&g) {
                            return Verdict::Fail(Violation::new("C13", "C13.cycle_reported", format!("glyph {g} of {} was made self-referential below an unconditionally traversed PaintGlyph, yet paint reported success ({} callbacks)", cf.name, m.events)));
                        }
                        if t.faults.len() == 1 && matches!(fmt, ColorGlyphFormat::ColrV1) && certain_deep.contains(&g) {
                            return Verdict::Fail(Violation::new("C13", "C13.depth_reported", format!("glyph {g} of {} was given an acyclic paint chain at least 1000 levels deep, yet paint reported success (deepest callback nesting {}, {} callbacks)", cf.name, m.max_depth, m.events)));
                        }
                        if let Some(why) = &m.bad {
                            return Verdict::Fail(Violation::new("C13", "C13.nesting", format!("paint of glyph {g} of {} reported success but {why}", cf.name)));
                        }
                        if !m.stack.is_empty() {
                            return Verdict::Fail(Violation::new("C13", "C13.balanced", format!("paint of glyph {g} of {} reported success with {} pushes never popped (innermost {:?})", cf.name, m.stack.len(), m.stack.last())));
                        }
                    }
                    Err(e) => {
                        if expect_cycle_error && certain_cycle.contains(&g) {
                            stats.bump("oracle.C13.certain_cycle_reported_as_error");
                        }
                        if t.faults.len() == 1 && certain_deep.contains(&g) {
                            stats.bump("oracle.C13.certain_depth_reported_as_error");
                        }
                        let s = format!("{e:?}");
                        if s.starts_with("PaintCycleDetected") {
                            stats.bump("probe.C13.cycle_detected");
                        } else if s.starts_with("DepthLimitExceeded") {
                            stats.bump("probe.C13.depth_limit");
                        } else {
                            stats.bump("probe.C13.other_error");
                        }
                    }
                }
                if m.cache_calls > 0 {
                    stats.bump("probe.C13.cache_callback_consulted");
                }
                stats.state(m.digest.finish());
                d.u64(m.digest.finish());
                d.u64(r.is_ok() as u64);
            }
        }
        Verdict::Pass { digest: d.finish(), sig: fnv(serde_json::to_string(&(&t.font, &t.faults, &t.coords, &t.glyphs, &t.cache_answers, t.client)).unwrap_or_default().as_bytes()), nontrivial: landed > 0 && paints > 0 }
    }
    fn shrink(&self, t: &PaintTrace) -> Vec<PaintTrace> {
        let mut out = Vec::new();
        for f in drop_chunks(&t.faults) {
            out.push(PaintTrace { faults: f, ..t.clone() });
        }
        for g in drop_chunks(&t.glyphs) {
            out.push(PaintTrace { glyphs: g, ..t.clone() });
        }
        if !t.coords.is_empty() {
            out.push(PaintTrace { coords: vec![], ..t.clone() });
        }
        if !t.cache_answers.is_empty() {
            out.push(PaintTrace { cache_answers: vec![], ..t.clone() });
        }
        if t.client != 0 {
            out.push(PaintTrace { client: 0, ..t.clone() });
        }
        out
    }
}
