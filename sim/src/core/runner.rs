//! Driver / worker protocol.
//!
//! The driver spawns W worker processes per part; case i goes to worker i mod W.
//! Workers announce `B i` before each case so that a worker death (abort, stack
//! overflow, watchdog kill) is attributed to the case in flight.

use super::report::{self, KnownFindings};
use super::{minimize, panics, Scenario, Stats, Verdict, Violation};
use crate::core::rng::mix;
use serde_json::{json, Value};
use std::collections::{BTreeMap, HashSet};
use std::io::{BufRead, BufReader, Write};
use std::process::{Command, Stdio};
use std::sync::atomic::{AtomicU64, Ordering};
use std::sync::mpsc;
use std::sync::Mutex;
use std::time::{Duration, Instant};

pub struct Part {
    pub scenario: Box<dyn Scenario>,
    pub quick: u64,
    pub thorough: u64,
    /// property that plain panics / aborts / hangs in this part violate
    pub panic_prop: &'static str,
    /// per-case wall-clock cap in seconds (watchdog)
    pub case_cap_s: u64,
    /// how long a case may run alone before it counts as not terminating (seconds); 0 = the default window.
    /// Engines whose property promises bounded work per call (C13: a bounded number of paint nodes) set a
    /// short window; where superlinear-but-terminating work is outside the property, the default stays.
    pub hang_window_s: u64,
}

pub struct CheckDef {
    pub property: &'static str,
    pub level: &'static str,
    pub parts: Vec<Part>,
    pub assumptions: Vec<&'static str>,
}

/// Replays go to /verif/replays; background shake-out runs redirect them (and the evidence) with VERIF_OUT_DIR
/// so that they never touch the files the registered commands write.
pub fn replay_dir() -> String {
    match std::env::var("VERIF_OUT_DIR") {
        Ok(d) if !d.is_empty() => format!("{d}/replays"),
        _ => format!("{}/replays", super::verif_root()),
    }
}

pub fn case_seed(seed: u64, scenario: &str, i: u64) -> u64 {
    mix(mix(seed, super::rng::hash_str(scenario)), i)
}

// ---------------------------------------------------------------- worker

static CASE_STARTED_AT: AtomicU64 = AtomicU64::new(0);
static CASE_INDEX: AtomicU64 = AtomicU64::new(u64::MAX);

fn now_ms() -> u64 {
    use std::time::{SystemTime, UNIX_EPOCH};
    SystemTime::now().duration_since(UNIX_EPOCH).map(|d| d.as_millis() as u64).unwrap_or(0)
}

pub struct WorkerArgs {
    pub seed: u64,
    pub k: u64,
    pub w: u64,
    pub from: u64,
    pub cases: u64,
    pub deadline_s: u64,
    pub digests: bool,
    pub samples: usize,
}

pub fn worker_main(part: &Part, a: &WorkerArgs) {
    panics::install();
    let cap_ms = part.case_cap_s * 1000;
    // watchdog: harness wall-clock only, never consulted by the simulation
    std::thread::spawn(move || loop {
        std::thread::sleep(Duration::from_millis(500));
        let st = CASE_STARTED_AT.load(Ordering::SeqCst);
        if st != 0 && now_ms().saturating_sub(st) > cap_ms {
            let i = CASE_INDEX.load(Ordering::SeqCst);
            let out = std::io::stdout();
            let mut o = out.lock();
            let _ = writeln!(o, "T {i}");
            let _ = o.flush();
            std::process::exit(3);
        }
    });
    let start = Instant::now();
    let out = std::io::stdout();
    let mut stats = Stats::default();
    let sc = part.scenario.as_ref();
    let mut i = a.from;
    while i % a.w != a.k {
        i += 1;
    }
    let mut stopped_early = false;
    while i < a.cases {
        if a.deadline_s > 0 && start.elapsed().as_secs() >= a.deadline_s {
            stopped_early = true;
            break;
        }
        {
            let mut o = out.lock();
            let _ = writeln!(o, "B {i}");
            let _ = o.flush();
        }
        CASE_INDEX.store(i, Ordering::SeqCst);
        CASE_STARTED_AT.store(now_ms(), Ordering::SeqCst);
        let cs = case_seed(a.seed, sc.name(), i);
        let want = stats.samples.len() < a.samples && (i / a.w) % 97 == 0;
        let (v, trace) = sc.run_seed(i, cs, &mut stats, want);
        CASE_STARTED_AT.store(0, Ordering::SeqCst);
        stats.cases += 1;
        match v {
            Verdict::Pass { digest, sig, nontrivial } => {
                stats.sigs.insert(sig);
                if nontrivial {
                    stats.nontrivial.insert(sig);
                }
                if want {
                    if let Some(t) = trace {
                        stats.samples.push(t);
                    }
                }
                if a.digests {
                    let mut o = out.lock();
                    let _ = writeln!(o, "D {i} {digest:016x}");
                }
            }
            Verdict::Fail(viol) => {
                let line = json!({"i": i, "case_seed": cs, "violation": viol, "trace": trace});
                let mut o = out.lock();
                let _ = writeln!(o, "F {}", line);
                let _ = o.flush();
                if a.digests {
                    let _ = writeln!(o, "D {i} FAIL:{}", viol.class_key());
                }
            }
            Verdict::Inconclusive(why) => {
                stats.inconclusive += 1;
                let mut o = out.lock();
                let _ = writeln!(o, "I {i} {}", why.replace('\n', " "));
                if a.digests {
                    let _ = writeln!(o, "D {i} INCONCLUSIVE");
                }
            }
        }
        i += a.w;
    }
    let s = json!({
        "counters": stats.counters,
        "dyn_counters": stats.dyn_counters,
        "sigs": stats.sigs.iter().collect::<Vec<_>>(),
        "nontrivial": stats.nontrivial.iter().collect::<Vec<_>>(),
        "states": stats.states.iter().collect::<Vec<_>>(),
        "samples": stats.samples,
        "cases": stats.cases,
        "inconclusive": stats.inconclusive,
        "sim_ticks": stats.sim_ticks,
        "stopped_early": stopped_early,
    });
    let mut o = out.lock();
    let _ = writeln!(o, "S {}", s);
    let _ = writeln!(o, "X");
    let _ = o.flush();
}

// ---------------------------------------------------------------- driver

#[derive(Default)]
pub struct Merged {
    pub counters: BTreeMap<String, u64>,
    pub sigs: HashSet<u64>,
    pub nontrivial: HashSet<u64>,
    pub states: HashSet<u64>,
    pub samples: Vec<Value>,
    pub cases: u64,
    pub inconclusive: u64,
    pub inconclusive_reasons: BTreeMap<String, u64>,
    pub sim_ticks: u64,
    pub stopped_early: bool,
    pub digests: BTreeMap<u64, String>,
}

enum Msg {
    Line(usize, String),
    Eof(usize),
}

pub struct Found {
    pub i: u64,
    pub case_seed: u64,
    pub violation: Violation,
    pub trace: Value,
    pub scenario: String,
}

pub struct DriverOpts {
    pub check: String,
    pub tier: String,
    pub seed: u64,
    pub workers: u64,
    pub cases_override: Option<u64>,
    pub digests_file: Option<String>,
    pub deadline_s: u64,
    pub only_part: Option<String>,
    pub profile: String,
}

pub struct PartOutcome {
    pub merged: Merged,
    pub found: Vec<Found>,
    pub harness_errors: Vec<String>,
}

fn spawn_worker(opts: &DriverOpts, part_idx: usize, k: u64, from: u64, cases: u64, tx: mpsc::Sender<Msg>, slot: usize) -> std::process::Child {
    let exe = std::env::current_exe().expect("current_exe");
    let mut cmd = Command::new(exe);
    cmd.arg("worker")
        .arg(&opts.check)
        .arg(part_idx.to_string())
        .arg(opts.seed.to_string())
        .arg(k.to_string())
        .arg(opts.workers.to_string())
        .arg(from.to_string())
        .arg(cases.to_string())
        .arg(opts.deadline_s.to_string())
        .arg(if opts.digests_file.is_some() { "1" } else { "0" })
        .stdin(Stdio::null())
        .stdout(Stdio::piped())
        .stderr(Stdio::inherit());
    let mut child = cmd.spawn().expect("spawn worker");
    let stdout = child.stdout.take().unwrap();
    std::thread::spawn(move || {
        let r = BufReader::with_capacity(1 << 20, stdout);
        for line in r.lines() {
            match line {
                Ok(l) => {
                    if tx.send(Msg::Line(slot, l)).is_err() {
                        return;
                    }
                }
                Err(_) => break,
            }
        }
        let _ = tx.send(Msg::Eof(slot));
    });
    child
}

pub fn run_part(opts: &DriverOpts, part_idx: usize, part: &Part, panic_map: &dyn Fn(&mut Violation)) -> PartOutcome {
    let cases = opts.cases_override.unwrap_or(if opts.tier == "thorough" { part.thorough } else { part.quick });
    let w = opts.workers.max(1).min(cases.max(1));
    let mut merged = Merged::default();
    let mut found: Vec<Found> = Vec::new();
    let mut harness_errors = Vec::new();
    let (tx, rx) = mpsc::channel::<Msg>();
    let mut children: Vec<Option<std::process::Child>> = Vec::new();
    let mut inflight: Vec<Option<u64>> = vec![None; w as usize];
    let mut done: Vec<bool> = vec![false; w as usize];
    let mut respawns: Vec<u32> = vec![0; w as usize];
    let mut timed_out: Vec<Option<u64>> = vec![None; w as usize];
    let opts_w = DriverOpts { workers: w, ..clone_opts(opts) };
    for k in 0..w {
        children.push(Some(spawn_worker(&opts_w, part_idx, k, 0, cases, tx.clone(), k as usize)));
    }
    let mut live = w as usize;
    let name = part.scenario.name().to_string();
    while live > 0 {
        let msg = match rx.recv() {
            Ok(m) => m,
            Err(_) => break,
        };
        match msg {
            Msg::Line(slot, l) => {
                let (tag, rest) = l.split_at(1.min(l.len()));
                let rest = rest.trim_start();
                match tag {
                    "B" => inflight[slot] = rest.parse().ok(),
                    "D" => {
                        let mut it = rest.splitn(2, ' ');
                        if let (Some(i), Some(d)) = (it.next(), it.next()) {
                            if let Ok(i) = i.parse::<u64>() {
                                merged.digests.insert(i, d.to_string());
                            }
                        }
                    }
                    "F" => {
                        if let Ok(v) = serde_json::from_str::<Value>(rest) {
                            let viol: Result<Violation, _> = serde_json::from_value(v["violation"].clone());
                            if let Ok(mut viol) = viol {
                                panic_map(&mut viol);
                                found.push(Found {
                                    i: v["i"].as_u64().unwrap_or(0),
                                    case_seed: v["case_seed"].as_u64().unwrap_or(0),
                                    violation: viol,
                                    trace: v["trace"].clone(),
                                    scenario: name.clone(),
                                });
                            }
                        }
                    }
                    "I" => {
                        merged.inconclusive += 0; // counted from S
                        let why = rest.splitn(2, ' ').nth(1).unwrap_or("").to_string();
                        if why.starts_with("HARNESS-PANIC") {
                            harness_errors.push(format!("{name}: case {}: {why}", rest.split(' ').next().unwrap_or("?")));
                        }
                        let key: String = why.chars().take(80).collect();
                        *merged.inconclusive_reasons.entry(key).or_insert(0) += 1;
                    }
                    "T" => {
                        timed_out[slot] = rest.parse().ok();
                    }
                    "S" => {
                        if let Ok(v) = serde_json::from_str::<Value>(rest) {
                            merge_stats(&mut merged, &v);
                        }
                    }
                    "X" => done[slot] = true,
                    _ => {}
                }
            }
            Msg::Eof(slot) => {
                let status = children[slot].take().map(|mut c| c.wait());
                if done[slot] {
                    live -= 1;
                    continue;
                }
                // worker died in flight
                let i = inflight[slot];
                let how = match status {
                    Some(Ok(st)) => {
                        use std::os::unix::process::ExitStatusExt;
                        if let Some(sig) = st.signal() {
                            format!("signal{sig}")
                        } else {
                            format!("exit{}", st.code().unwrap_or(-1))
                        }
                    }
                    _ => "unknown".to_string(),
                };
                if let Some(i) = i {
                    let cs = case_seed(opts.seed, &name, i);
                    let oracle = if timed_out[slot] == Some(i) { "hang".to_string() } else { format!("worker.died.{how}") };
                    let mut v = Violation::new(part.panic_prop, &oracle, format!("worker process ended ({how}) while running case {i}"));
                    v.message = how.clone();
                    let trace = part.scenario_generate(i, cs);
                    found.push(Found { i, case_seed: cs, violation: v, trace, scenario: name.clone() });
                    timed_out[slot] = None;
                    if respawns[slot] < 25 {
                        respawns[slot] += 1;
                        inflight[slot] = None;
                        children[slot] = Some(spawn_worker(&opts_w, part_idx, slot as u64, i + 1, cases, tx.clone(), slot));
                        continue;
                    }
                } else {
                    harness_errors.push(format!("{name}: worker {slot} ended ({how}) before starting a case"));
                }
                live -= 1;
            }
        }
    }
    PartOutcome { merged, found, harness_errors }
}

fn clone_opts(o: &DriverOpts) -> DriverOpts {
    DriverOpts {
        check: o.check.clone(),
        tier: o.tier.clone(),
        seed: o.seed,
        workers: o.workers,
        cases_override: o.cases_override,
        digests_file: o.digests_file.clone(),
        deadline_s: o.deadline_s,
        only_part: o.only_part.clone(),
        profile: o.profile.clone(),
    }
}

impl Part {
    pub fn scenario_generate(&self, i: u64, cs: u64) -> Value {
        // generate without executing: run_seed on a scenario would execute; engines expose
        // generation through shrink-free path below.
        self.scenario.generate_value(i, cs)
    }
}

fn merge_stats(m: &mut Merged, v: &Value) {
    for key in ["counters", "dyn_counters"] {
        if let Some(o) = v[key].as_object() {
            for (k, n) in o {
                *m.counters.entry(k.clone()).or_insert(0) += n.as_u64().unwrap_or(0);
            }
        }
    }
    fn fill(set: &mut HashSet<u64>, v: &Value) {
        if let Some(a) = v.as_array() {
            for x in a {
                if let Some(x) = x.as_u64() {
                    set.insert(x);
                }
            }
        }
    }
    fill(&mut m.sigs, &v["sigs"]);
    fill(&mut m.nontrivial, &v["nontrivial"]);
    fill(&mut m.states, &v["states"]);
    if let Some(a) = v["samples"].as_array() {
        for s in a {
            if m.samples.len() < 6 {
                m.samples.push(s.clone());
            }
        }
    }
    m.cases += v["cases"].as_u64().unwrap_or(0);
    m.inconclusive += v["inconclusive"].as_u64().unwrap_or(0);
    m.sim_ticks += v["sim_ticks"].as_u64().unwrap_or(0);
    if v["stopped_early"].as_bool().unwrap_or(false) {
        m.stopped_early = true;
    }
}

/// Runs a whole check; returns the process exit code.
pub fn drive(check: &CheckDef, opts: &DriverOpts) -> i32 {
    panics::install();
    let t0 = Instant::now();
    let known = KnownFindings::load(&format!("{}/known_findings.json", super::verif_root()));
    #[allow(unused_mut)]
    let mut all_found: Vec<Found> = Vec::new();
    let mut harness_errors: Vec<String> = Vec::new();
    let mut part_reports: Vec<Value> = Vec::new();
    let mut total = Merged::default();
    let mut digests_out: Vec<String> = Vec::new();
    for (idx, part) in check.parts.iter().enumerate() {
        if let Some(only) = &opts.only_part {
            if part.scenario.name() != only {
                continue;
            }
        }
        let pp = part.panic_prop;
        let strict = opts.profile == "strict";
        let as_debug_assert = false;
        let map = move |v: &mut Violation| {
            if v.property == "PANIC" {
                v.property = pp.to_string();
                if strict {
                    v.oracle = "panic.plain.strict".to_string();
                }
                if as_debug_assert {
                    v.property = "C20".to_string();
                    v.oracle = "panic.debug_assert".to_string();
                }
            }
        };
        let pt0 = Instant::now();
        let out = run_part(opts, idx, part, &map);
        let secs = pt0.elapsed().as_secs_f64();
        eprintln!(
            "[{}] part {} ({}): {} cases, {} distinct, {} non-trivial, {} states, {} inconclusive, {} candidate violations, {:.1}s{}",
            check.property,
            idx,
            part.scenario.name(),
            out.merged.cases,
            out.merged.sigs.len(),
            out.merged.nontrivial.len(),
            out.merged.states.len(),
            out.merged.inconclusive,
            out.found.len(),
            secs,
            if out.merged.stopped_early { " (stopped early by time cap)" } else { "" }
        );
        part_reports.push(json!({
            "scenario": part.scenario.name(),
            "cases": out.merged.cases,
            "distinct_cases": out.merged.sigs.len(),
            "distinct_nontrivial": out.merged.nontrivial.len(),
            "distinct_states": out.merged.states.len(),
            "inconclusive": out.merged.inconclusive,
            "inconclusive_reasons": out.merged.inconclusive_reasons,
            "wall_s": secs,
            "runs_per_hour": if secs > 0.0 { (out.merged.cases as f64 / secs * 3600.0) as u64 } else { 0 },
            "sim_ticks": out.merged.sim_ticks,
            "stopped_early_by_time_cap": out.merged.stopped_early,
            "counters": out.merged.counters,
            "rule": part.scenario.rule(),
            "components": part.scenario.components(),
        }));
        if opts.digests_file.is_some() {
            for (i, d) in &out.merged.digests {
                digests_out.push(format!("{} {} {}", part.scenario.name(), i, d));
            }
        }
        // merge into total (offset sigs by part so that distinct counts add up across parts)
        let salt = super::rng::hash_str(part.scenario.name());
        total.cases += out.merged.cases;
        total.inconclusive += out.merged.inconclusive;
        total.sim_ticks += out.merged.sim_ticks;
        for s in &out.merged.sigs {
            total.sigs.insert(mix(*s, salt));
        }
        for s in &out.merged.nontrivial {
            total.nontrivial.insert(mix(*s, salt));
        }
        for s in &out.merged.states {
            total.states.insert(mix(*s, salt));
        }
        for (k, n) in &out.merged.counters {
            *total.counters.entry(k.clone()).or_insert(0) += n;
        }
        for s in out.merged.samples.iter().take(2) {
            total.samples.push(json!({"scenario": part.scenario.name(), "trace": s}));
        }
        harness_errors.extend(out.harness_errors);
        all_found.extend(out.found);
    }
    if let Some(f) = &opts.digests_file {
        let _ = std::fs::write(f, digests_out.join("\n") + "\n");
    }

    // strict build, C20: a non-overflow panic belongs to C20 only if it is a debug assertion,
    // i.e. the same trace does not panic in the plain build.
    if opts.profile == "strict" && check.property == "C20" {
        let mut decided: BTreeMap<String, bool> = BTreeMap::new();
        for f in all_found.iter_mut() {
            if f.violation.oracle != "panic.plain.strict" {
                continue;
            }
            let key = f.violation.class_key();
            let is_debug_only = *decided.entry(key).or_insert_with(|| {
                plain_build_passes(check.property, &f.scenario, &f.violation, &f.trace, f.i as u64)
            });
            if is_debug_only {
                f.violation.property = "C20".to_string();
                f.violation.oracle = "panic.debug_assert".to_string();
            }
        }
    }

    // triage candidate violations
    let mut violations_reported = 0u64;
    let mut slow_cases = 0u64;
    let mut known_hits: BTreeMap<String, u64> = BTreeMap::new();
    let mut off_property: BTreeMap<String, u64> = BTreeMap::new();
    let mut by_class: BTreeMap<String, Vec<Found>> = BTreeMap::new();
    for f in all_found {
        if f.violation.property != check.property {
            *off_property.entry(format!("{} {} {}", f.violation.property, f.violation.oracle, f.violation.site_file)).or_insert(0) += 1;
            continue;
        }
        by_class.entry(f.violation.class_key()).or_default().push(f);
    }
    let mut out_lines: Vec<String> = Vec::new();
    let mut reported_json: Vec<Value> = Vec::new();
    for (class, mut fs) in by_class {
        fs.sort_by_key(|f| f.i);
        let n = fs.len();
        let first = fs.remove(0);
        let part = check.parts.iter().find(|p| p.scenario.name() == first.scenario).unwrap();
        let pp = part.panic_prop;
        let strict = opts.profile == "strict";
        // candidates of a debug-assertion class are compared as such while minimising; the replay
        // confirmation below repeats the cross-profile test on the minimised trace
        let as_debug_assert = first.violation.oracle == "panic.debug_assert";
        let map = move |v: &mut Violation| {
            if v.property == "PANIC" {
                v.property = pp.to_string();
                if strict {
                    v.oracle = "panic.plain.strict".to_string();
                }
                if as_debug_assert {
                    v.property = "C20".to_string();
                    v.oracle = "panic.debug_assert".to_string();
                }
            }
        };
        // strict-profile plain panics: only C20's if they do not reproduce in the plain build
        if strict && first.violation.oracle == "panic.plain.strict" && check.property == "C20" {
            // handled by the C20 check through cross-profile replay below
        }
        if let Some(k) = known.matches(&first.violation, &first.scenario) {
            *known_hits.entry(k).or_insert(0) += n as u64;
            continue;
        }
        if first.violation.oracle == "hang" {
            // The watchdog is a wall-clock cap and therefore load dependent. Up to two occurrences are run alone for
            // hang_confirm_s(): one that completes was slow, not hung; one that does not is a hang, attributed
            // (debugger sample taken at ten times the cap) to the code that is spinning, so that hangs with
            // different causes are reported separately and a recorded finding can be told from a new one.
            let mut occs: Vec<Found> = vec![first];
            occs.extend(fs.into_iter().take(1));
            let mut seen_sites: std::collections::BTreeSet<String> = Default::default();
            let mut slow = 0u64;
            for (k, occ) in occs.iter().enumerate() {
                let mut viol = occ.violation.clone();
                let mut rp = json!({
                    "check": check.property, "profile": opts.profile, "scenario": occ.scenario, "seed": opts.seed,
                    "case_index": occ.i, "case_seed": occ.case_seed, "violation": viol, "class": class, "occurrences_in_run": n,
                    "minimisation": {"minimised": false, "reason": "process-death class: reported unminimised"}, "trace": occ.trace,
                });
                let h = super::rng::fnv(serde_json::to_string(&rp["trace"]).unwrap_or_default().as_bytes());
                let _ = std::fs::create_dir_all(replay_dir());
                let path = format!("{}/{}-{:016x}.json", replay_dir(), check.property, h);
                let _ = std::fs::write(&path, serde_json::to_string_pretty(&rp).unwrap_or_default());
                if let Ok(mut g) = LAST_HANG_SITE.lock() {
                    *g = None;
                }
                let window = if part.hang_window_s > 0 { part.hang_window_s } else { hang_confirm_s() };
                rp["hang_window_s"] = json!(window);
                let _ = std::fs::write(&path, serde_json::to_string_pretty(&rp).unwrap_or_default());
                match replay_in_subprocess(&path, part.case_cap_s * 10, window) {
                    ReplayResult::Reproduced => {
                        let site = LAST_HANG_SITE.lock().ok().and_then(|mut g| g.take());
                        let key = site.as_ref().map(|s| s.0.clone()).unwrap_or_else(|| "unknown".into());
                        if let Some((module, func)) = site {
                            viol.site_file = module.clone();
                            viol.message = format!("no progress in {module}");
                            viol.detail = format!("{}; still running alone after {} s, spinning in {module} (sampled frame {func})", viol.detail, window.max(part.case_cap_s * 10));
                            rp["violation"] = json!(viol);
                            let _ = std::fs::write(&path, serde_json::to_string_pretty(&rp).unwrap_or_default());
                        }
                        if !seen_sites.insert(key) {
                            let _ = std::fs::remove_file(&path);
                            continue;
                        }
                        if let Some(kf) = known.matches(&viol, &occ.scenario) {
                            *known_hits.entry(kf).or_insert(0) += if k == 0 { n as u64 } else { 1 };
                            let _ = std::fs::remove_file(&path);
                            continue;
                        }
                        violations_reported += 1;
                        out_lines.push(format!("VIOLATION property={} replay={}", check.property, path));
                        eprintln!("  oracle={} detail={} ({} occurrences in the class)", viol.oracle, viol.detail, n);
                        reported_json.push(json!({"oracle": viol.oracle, "detail": viol.detail, "replay": path, "occurrences": n}));
                    }
                    ReplayResult::NotReproduced(how) => {
                        let _ = std::fs::remove_file(&path);
                        slow += 1;
                        if let Some((module, _)) = LAST_HANG_SITE.lock().ok().and_then(|mut g| g.take()) {
                            // completed, but only after more than ten times the cap: worth a line
                            eprintln!("NOTE: case {} of {} completed alone only after a long run ({how}); most of the time was spent in {module}", occ.i, occ.scenario);
                            *total.counters.entry(format!("probe.watchdog.very_slow_case_in.{module}")).or_insert(0) += 1;
                        }
                    }
                }
            }
            if slow > 0 {
                eprintln!("NOTE: {slow} case(s) of {} exceeded the {} s watchdog under load but complete when run alone: slow, not hung (not a violation)", occs[0].scenario, part.case_cap_s);
                slow_cases += slow;
            }
            continue;
        }
        let is_death = first.violation.oracle.starts_with("worker.died");
        let (trace, viol, min_info) = if is_death {
            (first.trace.clone(), first.violation.clone(), json!({"minimised": false, "reason": "process-death class: reported unminimised"}))
        } else {
            let before = serde_json::to_string(&first.trace).map(|s| s.len()).unwrap_or(0);
            let r = minimize::minimize(part.scenario.as_ref(), first.trace.clone(), first.violation.clone(), &map, 2000, Duration::from_secs(60));
            let after = serde_json::to_string(&r.trace).map(|s| s.len()).unwrap_or(0);
            (r.trace, r.violation, json!({"minimised": true, "attempts": r.attempts, "accepted": r.accepted, "bytes_before": before, "bytes_after": after}))
        };
        let replay = json!({
            "check": check.property,
            "profile": opts.profile,
            "scenario": first.scenario,
            "seed": opts.seed,
            "case_index": first.i,
            "case_seed": first.case_seed,
            "violation": viol,
            "class": class,
            "occurrences_in_run": n,
            "minimisation": min_info,
            "trace": trace,
        });
        let h = super::rng::fnv(serde_json::to_string(&replay["trace"]).unwrap_or_default().as_bytes());
        let _ = std::fs::create_dir_all(replay_dir());
        let path = format!("{}/{}-{:016x}.json", replay_dir(), check.property, h);
        let _ = std::fs::write(&path, serde_json::to_string_pretty(&replay).unwrap_or_default());
        // confirm in a fresh process
        let confirmed = replay_in_subprocess(&path, part.case_cap_s * 10, hang_confirm_s());
        match confirmed {
            ReplayResult::Reproduced => {
                violations_reported += 1;
                out_lines.push(format!("VIOLATION property={} replay={}", check.property, path));
                eprintln!("  oracle={} detail={} ({} occurrences)", viol.oracle, viol.detail, n);
                reported_json.push(json!({"oracle": viol.oracle, "detail": viol.detail, "replay": path, "occurrences": n}));
            }
            ReplayResult::NotReproduced(why) => {
                harness_errors.push(format!("violation class {class} did not reproduce from {path} in a fresh process: {why}"));
            }
        }
    }
    for (k, n) in &known_hits {
        println!("KNOWN-FINDING: property={} {} ({} occurrences this run)", check.property, k, n);
    }
    for (k, n) in &off_property {
        let owner = k.split(' ').next().unwrap_or("");
        if crate::checks::ALL.contains(&owner) {
            eprintln!("NOTE: observation outside this check's property (reported by that property's own check): {k} x{n}");
        } else {
            eprintln!("NOTE: observation that belongs to no claimed property (not judged here, see DESIGN.md section 13): {k} x{n}");
        }
    }
    for l in &out_lines {
        println!("{l}");
    }
    if slow_cases > 0 {
        *total.counters.entry("probe.watchdog.slow_case_completed_when_run_alone".to_string()).or_insert(0) += slow_cases;
    }
    let wall = t0.elapsed().as_secs_f64();
    report::write_evidence(check, opts, &total, &part_reports, violations_reported, &known_hits, &off_property, &reported_json, &harness_errors, wall);
    if !harness_errors.is_empty() {
        for e in &harness_errors {
            eprintln!("HARNESS-ERROR: {e}");
        }
        if violations_reported == 0 {
            return 2;
        }
    }
    if violations_reported > 0 {
        1
    } else {
        println!(
            "OK property={} tier={} seed={} cases={} distinct_nontrivial={} wall_s={:.1}",
            check.property,
            opts.tier,
            opts.seed,
            total.cases,
            total.nontrivial.len(),
            wall
        );
        0
    }
}

pub enum ReplayResult {
    Reproduced,
    NotReproduced(String),
}

/// Where the last confirmed hang was spinning: (module path, sampled functions). None when no
/// debugger is available - the hang is then reported without a site and cannot match a known finding.
pub static LAST_HANG_SITE: Mutex<Option<(String, String)>> = Mutex::new(None);

const REPO_CRATES: [&str; 7] = ["skrifa", "incremental_font_transfer", "klippa", "write_fonts", "shared_brotli_patch_decoder", "read_fonts", "font_types"];

/// Module path of a demangled function name: the leading lower-case segments.
fn module_of(func: &str) -> Option<(usize, String)> {
    let f = func.trim_start_matches('<');
    let krate = f.split("::").next()?;
    let rank = REPO_CRATES.iter().position(|c| *c == krate)?;
    let segs: Vec<&str> = f.split("::").collect();
    let mut keep = Vec::new();
    for (i, sg) in segs.iter().enumerate() {
        let first = sg.chars().next().unwrap_or('{');
        if i + 1 == segs.len() || !(first.is_ascii_lowercase() || first == '_') || sg.contains(' ') {
            break;
        }
        keep.push(*sg);
    }
    if keep.is_empty() {
        return None;
    }
    Some((rank, keep.join("::")))
}

/// Samples the stacks of a hung process with the system debugger and names the innermost frame that
/// belongs to the repository's crates (glyph-loading / IFT / subsetting crates preferred over the readers).
fn sample_hang_site(pid: u32) -> Option<(String, String)> {
    let mut votes: BTreeMap<String, (usize, u32, String)> = BTreeMap::new();
    for _ in 0..3 {
        let out = Command::new("timeout").args(["20", "gdb", "-p", &pid.to_string(), "-batch", "-ex", "thread apply all bt 60"]).stdin(Stdio::null()).stderr(Stdio::null()).output().ok()?;
        let text = String::from_utf8_lossy(&out.stdout).to_string();
        // per thread: the innermost repository frame of the best-ranked crate
        let mut best: Option<(usize, String, String)> = None;
        let mut thread_best: Option<(usize, String, String)> = None;
        for line in text.lines().chain(std::iter::once("Thread end")) {
            if line.starts_with("Thread ") {
                if let Some(tb) = thread_best.take() {
                    if best.as_ref().map(|b| tb.0 < b.0).unwrap_or(true) {
                        best = Some(tb);
                    }
                }
                continue;
            }
            if !line.starts_with('#') {
                continue;
            }
            // "#6  0x... in func (args) at file:line"  or  "#6  func (args) at file:line"
            let rest = line.splitn(2, char::is_whitespace).nth(1).unwrap_or("").trim_start();
            let rest = if rest.starts_with("0x") { rest.splitn(2, " in ").nth(1).unwrap_or("") } else { rest };
            let func = rest.split(" (").next().unwrap_or("").trim();
            if let Some((rank, module)) = module_of(func) {
                if thread_best.as_ref().map(|b| rank < b.0).unwrap_or(true) {
                    thread_best = Some((rank, module, func.to_string()));
                }
            }
        }
        if let Some((rank, module, func)) = best {
            let e = votes.entry(module).or_insert((rank, 0, func));
            e.1 += 1;
        }
        std::thread::sleep(Duration::from_millis(700));
    }
    votes.into_iter().max_by_key(|(_, (rank, n, _))| (*n, usize::MAX - *rank)).map(|(m, (_, _, f))| (m, f))
}

/// How long a case may run alone before it is called a hang (seconds). A case that exceeds the watchdog
/// under load, or even ten times the watchdog alone, but completes within this window is slow - possibly
/// pathologically so - but it does terminate, and the totality properties speak of loops without bound.
pub fn hang_confirm_s() -> u64 {
    std::env::var("VERIF_HANG_CONFIRM_S").ok().and_then(|s| s.parse().ok()).unwrap_or(1500)
}

pub fn replay_in_subprocess(path: &str, cap_s: u64, window_s: u64) -> ReplayResult {
    let exe = std::env::current_exe().expect("current_exe");
    let mut child = match Command::new(exe).arg("replay").arg(path).stdin(Stdio::null()).stdout(Stdio::piped()).stderr(Stdio::null()).spawn() {
        Ok(c) => c,
        Err(e) => return ReplayResult::NotReproduced(format!("spawn: {e}")),
    };
    let start = Instant::now();
    let mut sampled = false;
    loop {
        match child.try_wait() {
            Ok(Some(st)) => {
                return if st.code() == Some(1) || st.code().is_none() {
                    ReplayResult::Reproduced
                } else {
                    ReplayResult::NotReproduced(format!("exit {:?} after {} s", st.code(), start.elapsed().as_secs()))
                };
            }
            Ok(None) => {
                let el = start.elapsed().as_secs();
                if el > cap_s && !sampled {
                    // still running alone after ten times the cap: note where it is spinning, keep waiting
                    sampled = true;
                    if let Ok(mut g) = LAST_HANG_SITE.lock() {
                        *g = sample_hang_site(child.id());
                    }
                }
                if el > cap_s.max(window_s) {
                    // "loops without bound" is decided by a bound: no completion, alone, within this window
                    let _ = child.kill();
                    let _ = child.wait();
                    return ReplayResult::Reproduced;
                }
                std::thread::sleep(Duration::from_millis(20));
            }
            Err(e) => return ReplayResult::NotReproduced(format!("wait: {e}")),
        }
    }
}

/// `verif-sim replay <file>`: exit 1 + VIOLATION line if the recorded violation class reproduces.
/// Runs `trace` in the plain (release) build of the simulator; true when it does not panic there.
fn plain_build_passes(check: &str, scenario: &str, v: &Violation, trace: &Value, tag: u64) -> bool {
    let tmp = json!({"check": check, "profile": "plain", "scenario": scenario, "violation": {
        "property": v.property, "oracle": "panic.plain", "detail": "", "site_file": v.site_file,
        "site_line": v.site_line, "message": v.message}, "trace": trace});
    let _ = std::fs::create_dir_all(replay_dir());
    let path = format!("{}/.xprofile-{}-{}.json", replay_dir(), std::process::id(), tag);
    let _ = std::fs::write(&path, tmp.to_string());
    // the plain build lives next to this one: <target>/release/verif-sim
    let exe = std::env::current_exe().ok().and_then(|p| p.parent().and_then(|d| d.parent()).map(|d| d.join("release").join("verif-sim"))).unwrap_or_else(|| "/verif/sim/target/release/verif-sim".into());
    let st = Command::new(exe).arg("replay").arg(&path).stdin(Stdio::null()).stdout(Stdio::null()).stderr(Stdio::null()).status();
    let _ = std::fs::remove_file(&path);
    matches!(st.map(|s| s.code()), Ok(Some(0)))
}

pub fn replay_main(path: &str, lookup: &dyn Fn(&str, &str) -> Option<(Box<dyn Scenario>, &'static str)>) -> i32 {
    panics::install();
    let text = match std::fs::read_to_string(path) {
        Ok(t) => t,
        Err(e) => {
            eprintln!("cannot read {path}: {e}");
            return 2;
        }
    };
    let v: Value = match serde_json::from_str(&text) {
        Ok(v) => v,
        Err(e) => {
            eprintln!("cannot parse {path}: {e}");
            return 2;
        }
    };
    let check = v["check"].as_str().unwrap_or("");
    let scenario = v["scenario"].as_str().unwrap_or("");
    let strict = v["profile"].as_str() == Some("strict");
    let want: Violation = match serde_json::from_value(v["violation"].clone()) {
        Ok(w) => w,
        Err(e) => {
            eprintln!("no violation in replay file: {e}");
            return 2;
        }
    };
    let Some((sc, pp)) = lookup(check, scenario) else {
        eprintln!("unknown check/scenario {check}/{scenario}");
        return 2;
    };
    if want.oracle.starts_with("worker.died") || want.oracle == "hang" {
        // run it; if the process survives, it did not reproduce
        if want.oracle == "hang" {
            // a reproducing hang never returns: a timer reports it (the driver's own confirmation kills the
            // subprocess earlier, after ten times the per-case cap)
            let limit: u64 = v["hang_window_s"].as_u64().unwrap_or_else(hang_confirm_s);
            let prop = want.property.clone();
            let pth = path.to_string();
            std::thread::spawn(move || {
                std::thread::sleep(Duration::from_secs(limit));
                println!("reproduced: the trace has not completed after {limit} s");
                println!("VIOLATION property={prop} replay={pth}");
                std::process::exit(1);
            });
        }
        let mut st = Stats::default();
        let (verdict, _) = sc.run_trace(&v["trace"], &mut st);
        match verdict {
            Verdict::Fail(mut got) => {
                if got.property == "PANIC" {
                    got.property = pp.to_string();
                }
                println!("replay ended with a different violation: {} {}", got.oracle, got.detail);
                println!("VIOLATION property={} replay={}", got.property, path);
                return 1;
            }
            _ => {
                println!("did not reproduce: process survived the trace");
                return 0;
            }
        }
    }
    let mut st = Stats::default();
    let (verdict, _) = sc.run_trace(&v["trace"], &mut st);
    match verdict {
        Verdict::Fail(mut got) => {
            if got.property == "PANIC" {
                got.property = pp.to_string();
                if strict {
                    got.oracle = "panic.plain.strict".to_string();
                }
            }
            if strict && want.oracle == "panic.debug_assert" && got.oracle == "panic.plain.strict" && got.site_file == want.site_file && got.message == want.message {
                // a debug assertion: the same trace must pass in the plain build
                if plain_build_passes(check, scenario, &got, &v["trace"], 0) {
                    got.property = "C20".to_string();
                    got.oracle = "panic.debug_assert".to_string();
                } else {
                    println!("the same trace also panics in the plain build: not a debug-assertion failure");
                }
            }
            if got.class_key() == want.class_key() {
                println!("reproduced: oracle={} detail={}", got.oracle, got.detail);
                println!("VIOLATION property={} replay={}", got.property, path);
                1
            } else {
                println!("did not reproduce the recorded class; got instead: {} / {}", got.class_key(), got.detail);
                0
            }
        }
        Verdict::Pass { .. } => {
            println!("did not reproduce: trace passes");
            0
        }
        Verdict::Inconclusive(w) => {
            println!("did not reproduce: inconclusive ({w})");
            0
        }
    }
}
