#!/bin/bash
# confirm_mutant.sh <worktree> <mutant dir> <crate> [demo test file name when demo.rs must be copied to <crate>/tests/]
# Confirms: (1) existing tests of <crate> pass with the change, (2) the demo passes without the change,
# (3) the demo fails with the change. Leaves the worktree clean.
set -u
wt=$1; m=$2; crate=$3; demoname=${4:-}
cd "$wt" || exit 2
export CARGO_NET_OFFLINE=true
clean() { git checkout -q -- . ; git clean -fdq -e mutants -e target >/dev/null 2>&1; }
clean
run() { cargo test --offline -p "$crate" 2>&1 | grep -E "^test result|FAILED|failed|panicked at" | head -20; }
add_demo() {
  if [ -f "$m/demo.diff" ]; then git apply "$m/demo.diff" || echo "DEMO-APPLY-FAILED"; else mkdir -p "$crate/tests"; cp "$m/demo.rs" "$crate/tests/$demoname.rs"; fi
}
echo "--- (1) existing tests with the change"
git apply "$m/patch.diff" || { echo PATCH-APPLY-FAILED; exit 2; }
run
clean
echo "--- (2) demo without the change"
add_demo; run; clean
echo "--- (3) demo with the change"
git apply "$m/patch.diff"; add_demo; run; clean
git status --short | grep -v mutants | head
