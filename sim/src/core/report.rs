//! Evidence files and the known-findings list.

use super::runner::{CheckDef, DriverOpts, Merged};
use super::Violation;
use serde_json::{json, Value};
use std::collections::BTreeMap;

pub struct KnownFindings {
    entries: Vec<Value>,
}

impl KnownFindings {
    pub fn load(path: &str) -> Self {
        let entries = std::fs::read_to_string(path)
            .ok()
            .and_then(|t| serde_json::from_str::<Value>(&t).ok())
            .and_then(|v| v["findings"].as_array().cloned())
            .unwrap_or_default();
        KnownFindings { entries }
    }

    /// Returns the description of the matching listed finding, if any. A finding is
    /// identified by property + oracle + (panic site file and message fragment | detail fragment)
    /// and, optionally, the scenario; line numbers are deliberately not part of the identity.
    pub fn matches(&self, v: &Violation, scenario: &str) -> Option<String> {
        for e in &self.entries {
            let s = |k: &str| e[k].as_str().unwrap_or("");
            if s("property") != v.property || s("oracle") != v.oracle {
                continue;
            }
            if !s("site_file").is_empty() && s("site_file") != v.site_file {
                continue;
            }
            if !s("message_contains").is_empty() && !v.message.contains(s("message_contains")) {
                continue;
            }
            if !s("detail_contains").is_empty() && !v.detail.contains(s("detail_contains")) {
                continue;
            }
            if !s("detail_contains2").is_empty() && !v.detail.contains(s("detail_contains2")) {
                continue;
            }
            if !s("scenario").is_empty() && s("scenario") != scenario {
                continue;
            }
            return Some(format!("{} [{}]", s("what_fails"), s("id")));
        }
        None
    }
}

#[allow(clippy::too_many_arguments)]
pub fn write_evidence(
    check: &CheckDef,
    opts: &DriverOpts,
    total: &Merged,
    parts: &[Value],
    violations: u64,
    known_hits: &BTreeMap<String, u64>,
    off_property: &BTreeMap<String, u64>,
    reported: &[Value],
    harness_errors: &[String],
    wall: f64,
) {
    let mut faults: BTreeMap<String, u64> = BTreeMap::new();
    let mut probes: BTreeMap<String, u64> = BTreeMap::new();
    let mut oracles: BTreeMap<String, u64> = BTreeMap::new();
    let mut other: BTreeMap<String, u64> = BTreeMap::new();
    for (k, n) in &total.counters {
        if let Some(r) = k.strip_prefix("fault.") {
            faults.insert(r.to_string(), *n);
        } else if let Some(r) = k.strip_prefix("probe.") {
            probes.insert(r.to_string(), *n);
        } else if let Some(r) = k.strip_prefix("oracle.") {
            oracles.insert(r.to_string(), *n);
        } else {
            other.insert(k.clone(), *n);
        }
    }
    let rule: Vec<String> = parts
        .iter()
        .map(|p| format!("[{}] {}", p["scenario"].as_str().unwrap_or(""), p["rule"].as_str().unwrap_or("")))
        .collect();
    let components: Vec<String> = parts
        .iter()
        .map(|p| format!("[{}] {}", p["scenario"].as_str().unwrap_or(""), p["components"].as_str().unwrap_or("")))
        .collect();
    let mut samples = total.samples.clone();
    if samples.is_empty() {
        samples.push(json!("no sample captured (all cases failed or zero cases)"));
    }
    let ev = json!({
        "property_id": check.property,
        "tier": if opts.tier == "thorough" { "thorough" } else { "quick" },
        "seed": opts.seed,
        "level": check.level,
        "coverage": {
            "evaluations": total.cases,
            "distinct_nontrivial": total.nontrivial.len(),
            "distinct_cases": total.sigs.len(),
            "rule": rule.join(" || "),
            "samples": samples,
            "simulated_runs": total.cases,
            "runs_per_hour": if wall > 0.0 { (total.cases as f64 / wall * 3600.0) as u64 } else { 0 },
            "seeds": format!("VERIF_SEED={} expanded to one case seed per (scenario, case index)", opts.seed),
            "simulated_time_ticks": total.sim_ticks,
            "fault_kinds_fired": faults,
            "rare_condition_probes": probes,
            "oracle_comparisons": oracles,
            "other_counters": other,
            "distinct_states_or_interleavings": total.states.len(),
            "inconclusive_cases": total.inconclusive,
            "real_vs_stub": components,
            "parts": parts,
            "build_profile": opts.profile,
            "workers": opts.workers,
            "known_findings_hit": known_hits,
            "off_property_observations": off_property,
            "violations_reported": reported,
            "harness_errors": harness_errors,
            "exhaustive": false,
        },
        "assumptions": check.assumptions,
        "wall_s": wall,
        "violations": violations,
    });
    let dir = match std::env::var("VERIF_OUT_DIR") {
        Ok(d) if !d.is_empty() => format!("{d}/evidence"),
        _ => format!("{}/evidence", super::verif_root()),
    };
    let _ = std::fs::create_dir_all(&dir);
    let path = format!("{dir}/{}.json", check.property);
    let _ = std::fs::write(path, serde_json::to_string_pretty(&ev).unwrap_or_default());
}
