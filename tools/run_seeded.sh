#!/bin/bash
# Regression over the seeded property-breaking changes: every /verif/seeded/<id>/patch.diff is applied
# to a scratch worktree of /repo, the owning check's quick command runs from a scratch copy of /verif
# built against that worktree, and the outcome (caught / MISSED) is tabulated. /repo and /verif are
# never touched, so this can run while either is being edited. Everything lives under $SCRATCH and is
# removed at the end.
#   tools/run_seeded.sh [id ...]        (default: all; output: table on stdout)
set -u
SCRATCH=${SCRATCH:-/tmp/seeded-run}
rm -rf "$SCRATCH"; git -C /repo worktree prune
mkdir -p "$SCRATCH"
git -C /repo worktree add -q --detach "$SCRATCH/repo" HEAD || exit 2
rsync -a --exclude .git --exclude 'sim/target*' --exclude replays --exclude evidence /verif/ "$SCRATCH/verif/"
sed -i "s#\"/repo/#\"$SCRATCH/repo/#" "$SCRATCH/verif/sim/Cargo.toml"
export CARGO_TARGET_DIR="$SCRATCH/target" VERIF_REPO="$SCRATCH/repo" CARGO_NET_OFFLINE=true
cleanup() { git -C /repo worktree remove --force "$SCRATCH/repo" 2>/dev/null; git -C /repo worktree prune; rm -rf "$SCRATCH"; }
trap cleanup EXIT
SEEDED_DIR=${SEEDED_DIR:-/verif/seeded}   # /verif/reverts holds the reverse patches of the fix: commits
ids=("$@"); [ ${#ids[@]} -gt 0 ] || ids=($(cd "$SEEDED_DIR" && ls -d */ | tr -d / | grep -E '^(C[0-9]+-|R-)'))
cd "$SCRATCH/verif"
for id in "${ids[@]}"; do
  d=$SEEDED_DIR/$id
  prop=$(python3 -c "import json;m=json.load(open('$d/meta.json'));print(m.get('check',m['property']))")
  git -C "$SCRATCH/repo" checkout -q -- . ; git -C "$SCRATCH/repo" clean -fdq
  if ! git -C "$SCRATCH/repo" apply "$d/patch.diff" 2>/dev/null; then echo "$id $prop PATCH-DOES-NOT-APPLY"; continue; fi
  out=$(VERIF_OUT_DIR="$SCRATCH/out/$id" ./check "$prop" --tier quick 2>&1)
  rc=$?
  mkdir -p "${LOGDIR:-/tmp/seeded-logs}"; echo "$out" > "${LOGDIR:-/tmp/seeded-logs}/$id.log"
  what=$(echo "$out" | grep -E "oracle=" | head -2 | sed 's/^ *//' | cut -c1-160 | tr '\n' ';')
  case $rc in
    1) echo "$id $prop caught: $what";;
    0) echo "$id $prop MISSED";;
    *) echo "$id $prop HARNESS-ERROR: $(echo "$out" | tail -2 | tr '\n' ' ' | cut -c1-200)";;
  esac
done
