//! The repository's own test fonts, read from /repo's working tree at run time.

use std::sync::OnceLock;

pub struct CorpusFont {
    pub name: String,
    pub data: &'static [u8],
}

static CORPUS: OnceLock<Vec<CorpusFont>> = OnceLock::new();

pub fn corpus() -> &'static [CorpusFont] {
    CORPUS.get_or_init(|| {
        let mut v = Vec::new();
        let root = crate::core::repo_root();
        for dir in [format!("{root}/font-test-data/test_data/ttf"), format!("{root}/font-test-data/test_data/ttc")] {
            let mut names: Vec<_> = std::fs::read_dir(dir)
                .map(|rd| rd.filter_map(|e| e.ok()).map(|e| e.path()).collect())
                .unwrap_or_default();
            names.sort();
            for p in names {
                let ext = p.extension().and_then(|e| e.to_str()).unwrap_or("");
                if !matches!(ext, "ttf" | "otf" | "ttc") {
                    continue;
                }
                if let Ok(bytes) = std::fs::read(&p) {
                    let name = p.file_name().unwrap().to_string_lossy().to_string();
                    v.push(CorpusFont { name, data: Box::leak(bytes.into_boxed_slice()) });
                }
            }
        }
        v
    })
}

pub fn by_name(name: &str) -> Option<&'static CorpusFont> {
    corpus().iter().find(|f| f.name == name)
}

pub fn index_of(name: &str) -> Option<usize> {
    corpus().iter().position(|f| f.name == name)
}
