pub mod encode;
pub mod sim;
pub mod world;
