//! Which scenarios decide which property, and with what budget per tier.

use crate::core::runner::{CheckDef, Part};
use crate::core::{Erased, Scenario};
use crate::engines;

fn part(sc: Box<dyn Scenario>, quick: u64, thorough: u64, panic_prop: &'static str, cap: u64) -> Part {
    Part { scenario: sc, quick, thorough, panic_prop, case_cap_s: cap }
}

pub fn check(property: &str) -> Option<CheckDef> {
    match property {
        "C07" => Some(CheckDef {
            property: "C07",
            level: "exploration",
            parts: vec![part(Box::new(Erased(engines::compile::CompileDeterminism)), 6_000, 200_000, "C07", 120)],
            assumptions: vec![
                "shuttle coroutines stand in for OS threads: only the interleaving of object-id allocations and job boundaries is explored, which is the only shared state of compilation (one AtomicU64)",
                "std HashMap keys are the only unseeded randomness; they are controlled through the getrandom symbol",
                "reference digests come from the same build running alone; only agreement is required, no golden bytes",
            ],
        }),
        _ => None,
    }
}

pub const ALL: &[&str] = &["C07"];
