//! C01 / C02 (skrifa surface) / C20: storage and transport faults on stored font images,
//! followed by a complete read of the image (read-fonts) or a sweep of the glyph-loading API.

use crate::core::rng::{fnv, mix, Digest, Rng};
use crate::core::{Engine, Stats, Verdict, Violation};
use crate::corpus;
use crate::engines::compile::subset_font;
use crate::engines::drawhist::Recording;
use read_fonts::traversal::{FieldType, SomeArray, SomeTable};
use read_fonts::types::{F2Dot14, GlyphId, Tag};
use read_fonts::{FileRef, FontData, FontRef, ReadError, TableProvider};
use serde::{Deserialize, Serialize};
use std::sync::OnceLock;

// ------------------------------------------------------------------ image pool

pub struct Image {
    pub name: String,
    pub data: &'static [u8],
    /// a second version of the same font (subset) for tear faults
    pub other: Option<&'static [u8]>,
    pub tables: Vec<(Tag, usize, usize)>,
    /// real-world font from klippa's test data (see corpus.rs)
    pub extended: bool,
}

pub fn images() -> &'static [Image] {
    static P: OnceLock<Vec<Image>> = OnceLock::new();
    P.get_or_init(|| {
        let mut v = Vec::new();
        for f in corpus::corpus() {
            let mut tables = Vec::new();
            let mut other = None;
            if let Ok(fr) = FontRef::new(f.data) {
                for r in fr.table_directory.table_records() {
                    tables.push((r.tag(), r.offset() as usize, r.length() as usize));
                }
                if fr.glyf().is_ok() && fr.cmap().is_ok() && f.data.len() < 300_000 {
                    let n = fr.maxp().map(|m| m.num_glyphs() as u32).unwrap_or(1);
                    let gids: Vec<u32> = (0..n).step_by(2).collect();
                    if let Ok(sub) = std::panic::catch_unwind(|| subset_font(f.data, &gids, &[], 0)) {
                        if let Ok(sub) = sub {
                            other = Some(&*Box::leak(sub.into_boxed_slice()));
                        }
                    }
                    crate::core::panics::reset();
                }
            }
            v.push(Image { name: f.name.clone(), data: f.data, other, tables, extended: f.extended });
        }
        v
    })
}

// ------------------------------------------------------------------ faults (seam S5)

#[derive(Clone, Debug, Serialize, Deserialize, PartialEq)]
pub enum ImgFault {
    Truncate { at: u32 },
    BitFlip { bit: u32 },
    ZeroSector { at: u32, len: u32 },
    DupSector { from: u32, to: u32, len: u32 },
    ShiftSector { at: u32, by: u32 },
    /// bytes [at..] come from the other version of the image
    ByteTear { at: u32 },
    /// overwrite a 2- or 4-byte slot with the value of another slot (misdirected write)
    SlotCopy { from: u32, to: u32, width: u8 },
    /// set a 16-bit field to an extreme value
    Extreme16 { at: u32, v: u16 },
    /// one byte overwritten (stuck-at-zero / stuck-at-one byte)
    SetByte { at: u32, v: u8 },
}

pub fn apply_fault(buf: &mut Vec<u8>, other: Option<&[u8]>, f: &ImgFault) -> bool {
    let n = buf.len();
    if n == 0 {
        return false;
    }
    match f {
        ImgFault::Truncate { at } => {
            let at = *at as usize % (n + 1);
            buf.truncate(at);
            true
        }
        ImgFault::BitFlip { bit } => {
            let i = (*bit as usize / 8) % n;
            buf[i] ^= 1 << (bit % 8);
            true
        }
        ImgFault::ZeroSector { at, len } => {
            let a = *at as usize % n;
            let e = (a + *len as usize).min(n);
            buf[a..e].fill(0);
            true
        }
        ImgFault::DupSector { from, to, len } => {
            let a = *from as usize % n;
            let b = *to as usize % n;
            let l = (*len as usize).min(n - a).min(n - b);
            let tmp = buf[a..a + l].to_vec();
            buf[b..b + l].copy_from_slice(&tmp);
            l > 0
        }
        ImgFault::ShiftSector { at, by } => {
            let a = *at as usize % n;
            let by = (*by as usize % 8) + 1;
            if a + by < n {
                buf.copy_within(a + by.., a);
                true
            } else {
                false
            }
        }
        ImgFault::ByteTear { at } => {
            let Some(o) = other else { return false };
            let a = *at as usize % n;
            let mut out = buf[..a].to_vec();
            if o.len() > a {
                out.extend_from_slice(&o[a..]);
            }
            *buf = out;
            true
        }
        ImgFault::SlotCopy { from, to, width } => {
            let w = if *width == 2 { 2 } else { 4 };
            if n < w * 2 {
                return false;
            }
            let a = (*from as usize % (n - w)) & !1;
            let b = (*to as usize % (n - w)) & !1;
            let tmp = buf[a..a + w].to_vec();
            buf[b..b + w].copy_from_slice(&tmp);
            true
        }
        ImgFault::Extreme16 { at, v } => {
            if n < 2 {
                return false;
            }
            let a = (*at as usize % (n - 1)) & !1;
            buf[a..a + 2].copy_from_slice(&v.to_be_bytes());
            true
        }
        ImgFault::SetByte { at, v } => {
            let a = *at as usize % n;
            let changed = buf[a] != *v;
            buf[a] = *v;
            changed
        }
    }
}

pub fn gen_fault(rng: &mut Rng, len: usize, has_other: bool) -> ImgFault {
    let n = len.max(1) as u64;
    // bias positions towards the head of the data (headers, counts, offsets)
    let pos = |rng: &mut Rng| -> u32 {
        match rng.below(3) {
            0 => rng.below(n.min(64)) as u32,
            1 => rng.below(n.min(512)) as u32,
            _ => rng.below(n) as u32,
        }
    };
    match rng.below(if has_other { 10 } else { 9 }) {
        0 | 1 => ImgFault::Truncate { at: pos(rng) },
        2 | 3 => ImgFault::BitFlip { bit: pos(rng) * 8 + rng.below(8) as u32 },
        4 => ImgFault::ZeroSector { at: pos(rng), len: 1 + rng.below(64) as u32 },
        5 => ImgFault::DupSector { from: pos(rng), to: pos(rng), len: 2 + rng.below(62) as u32 },
        6 => ImgFault::ShiftSector { at: pos(rng), by: rng.below(8) as u32 },
        7 => ImgFault::SlotCopy { from: pos(rng), to: pos(rng), width: *rng.pick(&[2u8, 4]) },
        8 => ImgFault::Extreme16 { at: pos(rng), v: *rng.pick(&[0u16, 1, 0x7FFF, 0x8000, 0xFFFF, 0xFFFE]) },
        _ => ImgFault::ByteTear { at: pos(rng) },
    }
}

#[derive(Clone, Debug, Serialize, Deserialize)]
pub struct ImageTrace {
    pub image: usize,
    /// None = fault the raw file; Some(tag) = fault that table's payload and re-assemble the sfnt around it
    pub table: Option<[u8; 4]>,
    pub faults: Vec<ImgFault>,
    /// tables taken from the other version of the font (table-level tear)
    pub torn_tables: Vec<[u8; 4]>,
    pub sweep_seed: u64,
}

/// Builds the faulted image. Returns None when no fault landed.
pub fn faulted_image(t: &ImageTrace, stats: &mut Stats) -> Option<Vec<u8>> {
    let img = &images()[t.image];
    let mut landed = false;
    let out = match &t.table {
        None => {
            let mut buf = img.data.to_vec();
            for f in &t.faults {
                if apply_fault(&mut buf, img.other, f) {
                    landed = true;
                    stats.bump(fault_counter(f, false));
                }
            }
            buf
        }
        Some(tag) => {
            let fr = FontRef::new(img.data).ok()?;
            let other = img.other.and_then(|o| FontRef::new(o).ok());
            let tag = Tag::new(tag);
            let mut payload = fr.table_data(tag)?.as_bytes().to_vec();
            let other_payload = other.as_ref().and_then(|o| o.table_data(tag)).map(|d| d.as_bytes().to_vec());
            for f in &t.faults {
                if apply_fault(&mut payload, other_payload.as_deref(), f) {
                    landed = true;
                    stats.bump(fault_counter(f, true));
                }
            }
            let mut b = write_fonts::FontBuilder::new();
            b.add_raw(tag, payload);
            for tt in &t.torn_tables {
                if let Some(o) = &other {
                    if let Some(d) = o.table_data(Tag::new(tt)) {
                        if Tag::new(tt) != tag {
                            b.add_raw(Tag::new(tt), d.as_bytes().to_vec());
                            landed = true;
                            stats.bump("fault.image.table_tear_between_versions");
                        }
                    }
                }
            }
            b.copy_missing_tables(fr);
            b.build()
        }
    };
    if landed {
        Some(out)
    } else {
        None
    }
}

fn fault_counter(f: &ImgFault, table_level: bool) -> &'static str {
    match (f, table_level) {
        (ImgFault::Truncate { .. }, false) => "fault.image.file.short_read",
        (ImgFault::Truncate { .. }, true) => "fault.image.table.short_read",
        (ImgFault::BitFlip { .. }, false) => "fault.image.file.bit_flip",
        (ImgFault::BitFlip { .. }, true) => "fault.image.table.bit_flip",
        (ImgFault::ZeroSector { .. }, _) => "fault.image.zeroed_sector",
        (ImgFault::DupSector { .. }, _) => "fault.image.duplicated_sector",
        (ImgFault::ShiftSector { .. }, _) => "fault.image.shifted_sector",
        (ImgFault::ByteTear { .. }, _) => "fault.image.byte_tear_between_versions",
        (ImgFault::SlotCopy { .. }, _) => "fault.image.slot_overwritten_by_other_slot",
        (ImgFault::Extreme16 { .. }, _) => "fault.image.field_set_to_extreme",
        (ImgFault::SetByte { .. }, _) => "fault.image.byte_stuck_at_00_or_ff",
    }
}

// ------------------------------------------------------------------ read-fonts sweep (C01)

thread_local! {
    static OVERRUN: std::cell::RefCell<Option<String>> = const { std::cell::RefCell::new(None) };
}

/// An iterator of the library yielded more items than its input can possibly hold (it would not have
/// terminated by itself): reported by the engines as a violation of the termination clause.
pub fn take_overrun() -> Option<String> {
    OVERRUN.with(|o| o.borrow_mut().take())
}

/// Consumes `it`, which by construction of its input cannot hold more than `bound` items; the first
/// `digest_first` items are handed to `f`. More than `bound` items means the iterator does not terminate.
fn drain<I: Iterator>(it: I, bound: usize, digest_first: usize, what: &str, mut f: impl FnMut(I::Item)) {
    let mut n = 0usize;
    for x in it {
        if n > bound {
            OVERRUN.with(|o| {
                let mut o = o.borrow_mut();
                if o.is_none() {
                    *o = Some(format!("{what} yielded more than {bound} items"));
                }
            });
            return;
        }
        if n < digest_first {
            f(x);
        }
        n += 1;
    }
}

pub struct Budget {
    pub nodes: u64,
    pub max_nodes: u64,
    pub exhausted: bool,
}

fn err_code(e: &ReadError) -> u64 {
    fnv(format!("{e:?}").chars().take_while(|c| c.is_alphanumeric()).collect::<String>().as_bytes())
}

fn walk_field<'a>(f: FieldType<'a>, d: &mut Digest, b: &mut Budget, depth: u32) {
    if b.nodes >= b.max_nodes {
        b.exhausted = true;
        return;
    }
    b.nodes += 1;
    match f {
        FieldType::I8(v) => d.u64(v as u64),
        FieldType::U8(v) => d.u64(v as u64),
        FieldType::I16(v) => d.u64(v as u64),
        FieldType::U16(v) => d.u64(v as u64),
        FieldType::I32(v) => d.u64(v as u64),
        FieldType::U32(v) => d.u64(v as u64),
        FieldType::I24(v) => d.u64(i32::from(v) as u64),
        FieldType::U24(v) => d.u64(u32::from(v) as u64),
        FieldType::Tag(v) => d.u64(u32::from_be_bytes(v.to_be_bytes()) as u64),
        FieldType::FWord(v) => d.u64(v.to_i16() as u64),
        FieldType::UfWord(v) => d.u64(v.to_u16() as u64),
        FieldType::MajorMinor(v) => d.u64(((v.major as u64) << 16) | v.minor as u64),
        FieldType::Version16Dot16(v) => d.u64(v.to_major_minor().0 as u64),
        FieldType::F2Dot14(v) => d.u64(v.to_bits() as u64),
        FieldType::Fixed(v) => d.u64(v.to_bits() as u64),
        FieldType::LongDateTime(v) => d.u64(v.as_secs() as u64),
        FieldType::GlyphId16(v) => d.u64(v.to_u16() as u64),
        FieldType::NameId(v) => d.u64(v.to_u16() as u64),
        FieldType::BareOffset(o) => d.u64(o.to_u32() as u64),
        FieldType::ResolvedOffset(r) => {
            d.u64(r.offset.to_u32() as u64);
            match r.target {
                Ok(t) => {
                    if depth < 24 {
                        walk_table(&*t, d, b, depth + 1)
                    } else {
                        b.exhausted = true;
                    }
                }
                Err(e) => d.u64(err_code(&e)),
            }
        }
        FieldType::StringOffset(s) => {
            d.u64(s.offset.to_u32() as u64);
            match s.target {
                Ok(t) => {
                    for c in t.iter_chars().take(4096) {
                        d.u64(c as u64);
                    }
                }
                Err(e) => d.u64(err_code(&e)),
            }
        }
        FieldType::ArrayOffset(a) => {
            d.u64(a.offset.to_u32() as u64);
            match a.target {
                Ok(t) => walk_array(&*t, d, b, depth + 1),
                Err(e) => d.u64(err_code(&e)),
            }
        }
        FieldType::Record(r) => {
            if depth < 24 {
                walk_table(&r, d, b, depth + 1)
            }
        }
        FieldType::Array(a) => walk_array(&*a, d, b, depth + 1),
        FieldType::Unknown => d.u64(0xdead),
    }
}

fn walk_array<'a>(a: &(dyn SomeArray<'a> + 'a), d: &mut Digest, b: &mut Budget, depth: u32) {
    let n = a.len();
    d.u64(n as u64);
    for i in 0..n {
        if b.nodes >= b.max_nodes {
            b.exhausted = true;
            return;
        }
        match a.get(i) {
            Some(f) => walk_field(f, d, b, depth),
            None => {
                d.u64(0xa11);
                break;
            }
        }
    }
}

pub fn walk_table<'a>(t: &(dyn SomeTable<'a> + 'a), d: &mut Digest, b: &mut Budget, depth: u32) {
    d.str(t.type_name());
    let mut i = 0;
    while let Some(f) = t.get_field(i) {
        d.str(f.name);
        walk_field(f.value, d, b, depth);
        i += 1;
        if b.nodes >= b.max_nodes {
            b.exhausted = true;
            return;
        }
    }
}

macro_rules! trav {
    ($d:expr, $b:expr, $name:expr, $r:expr) => {{
        $d.str($name);
        match $r {
            Ok(t) => walk_table(&t, $d, $b, 0),
            Err(e) => $d.u64(err_code(&e)),
        }
    }};
}

/// Reads everything reachable from one font: every TableProvider accessor, generic traversal of
/// the table graph, and the hand-written helpers.
pub fn sweep_font(font: &FontRef, d: &mut Digest, max_nodes: u64, only: Option<Tag>, rng: &mut Rng) -> bool {
    let mut b = Budget { nodes: 0, max_nodes, exhausted: false };
    let want = |t: &[u8; 4]| only.map(|o| o == Tag::new(t)).unwrap_or(true);
    let b = &mut b;
    if want(b"head") { trav!(d, b, "head", font.head()); }
    if want(b"name") { trav!(d, b, "name", font.name()); }
    if want(b"hhea") { trav!(d, b, "hhea", font.hhea()); }
    if want(b"vhea") { trav!(d, b, "vhea", font.vhea()); }
    if want(b"hmtx") || want(b"hhea") || want(b"maxp") { trav!(d, b, "hmtx", font.hmtx()); }
    if want(b"hdmx") { trav!(d, b, "hdmx", font.hdmx()); }
    if want(b"vmtx") || want(b"vhea") { trav!(d, b, "vmtx", font.vmtx()); }
    if want(b"VORG") { trav!(d, b, "VORG", font.vorg()); }
    if want(b"fvar") { trav!(d, b, "fvar", font.fvar()); }
    if want(b"avar") { trav!(d, b, "avar", font.avar()); }
    if want(b"HVAR") { trav!(d, b, "HVAR", font.hvar()); }
    if want(b"VVAR") { trav!(d, b, "VVAR", font.vvar()); }
    if want(b"MVAR") { trav!(d, b, "MVAR", font.mvar()); }
    if want(b"maxp") { trav!(d, b, "maxp", font.maxp()); }
    if want(b"OS/2") { trav!(d, b, "OS/2", font.os2()); }
    if want(b"post") { trav!(d, b, "post", font.post()); }
    if want(b"gasp") { trav!(d, b, "gasp", font.gasp()); }
    if want(b"loca") || want(b"head") || want(b"maxp") { trav!(d, b, "loca", font.loca(None)); }
    if want(b"glyf") { trav!(d, b, "glyf", font.glyf()); }
    if want(b"gvar") { trav!(d, b, "gvar", font.gvar()); }
    if want(b"cvar") { trav!(d, b, "cvar", font.cvar()); }
    if want(b"CFF ") { trav!(d, b, "CFF", font.cff().map(|c| c.header())); }
    if want(b"CFF2") { trav!(d, b, "CFF2", font.cff2().map(|c| c.header().clone())); }
    if want(b"cmap") { trav!(d, b, "cmap", font.cmap()); }
    if want(b"GDEF") { trav!(d, b, "GDEF", font.gdef()); }
    if want(b"GPOS") { trav!(d, b, "GPOS", font.gpos()); }
    if want(b"GSUB") { trav!(d, b, "GSUB", font.gsub()); }
    if want(b"feat") { trav!(d, b, "feat", font.feat()); }
    if want(b"ltag") { trav!(d, b, "ltag", font.ltag()); }
    if want(b"ankr") { trav!(d, b, "ankr", font.ankr()); }
    if want(b"COLR") { trav!(d, b, "COLR", font.colr()); }
    if want(b"CPAL") { trav!(d, b, "CPAL", font.cpal()); }
    if want(b"CBLC") { trav!(d, b, "CBLC", font.cblc()); }
    if want(b"CBDT") { trav!(d, b, "CBDT", font.cbdt()); }
    if want(b"EBLC") { trav!(d, b, "EBLC", font.eblc()); }
    if want(b"EBDT") { trav!(d, b, "EBDT", font.ebdt()); }
    if want(b"sbix") || want(b"maxp") { trav!(d, b, "sbix", font.sbix()); }
    if want(b"STAT") { trav!(d, b, "STAT", font.stat()); }
    if want(b"SVG ") { trav!(d, b, "SVG", font.svg()); }
    if want(b"VARC") { trav!(d, b, "VARC", font.varc()); }
    if want(b"IFT ") { trav!(d, b, "IFT", font.ift()); }
    if want(b"IFTX") { trav!(d, b, "IFTX", font.iftx()); }
    if want(b"meta") { trav!(d, b, "meta", font.meta()); }
    if want(b"BASE") { trav!(d, b, "BASE", font.base()); }
    if let Ok(cvt) = font.cvt() {
        d.u64(cvt.len() as u64);
    }
    helpers(font, d, only, rng);
    b.exhausted
}

/// The hand-written lookup helpers named in the property.
fn helpers(font: &FontRef, d: &mut Digest, only: Option<Tag>, rng: &mut Rng) {
    use read_fonts::tables::cmap::CmapSubtable;
    let want = |t: &[u8; 4]| only.map(|o| o == Tag::new(t)).unwrap_or(true);
    let num_glyphs = font.maxp().map(|m| m.num_glyphs() as u32).unwrap_or(0);
    let sample_gids: Vec<u32> = {
        let mut v: Vec<u32> = (0..num_glyphs.min(48)).collect();
        for _ in 0..8 {
            v.push(rng.below(num_glyphs as u64 + 3) as u32);
        }
        v.extend([0xFFFF, 0xFFFFFF]);
        v
    };
    if want(b"cmap") {
        if let Ok(cmap) = font.cmap() {
            for cp in [0u32, 0x20, 0x41, 0xFFFF, 0x10000, 0x10FFFF, 0xE000, 0x5D0] {
                d.u64(cmap.map_codepoint(cp).map(|g| g.to_u32() as u64 + 1).unwrap_or(0));
            }
            for rec in cmap.encoding_records() {
                match rec.subtable(cmap.offset_data()) {
                    Ok(CmapSubtable::Format4(s)) => {
                        for (c, g) in s.iter().take(20_000) {
                            d.u64(((c as u64) << 24) ^ g.to_u32() as u64);
                        }
                        for cp in [0u32, 0x41, 0xFFFF] {
                            d.u64(s.map_codepoint(cp).map(|g| g.to_u32() as u64 + 1).unwrap_or(0));
                        }
                    }
                    Ok(CmapSubtable::Format12(s)) => {
                        for (c, g) in s.iter().take(20_000) {
                            d.u64(((c as u64) << 24) ^ g.to_u32() as u64);
                        }
                    }
                    Ok(CmapSubtable::Format14(s)) => {
                        for (c, v, m) in s.iter().take(5_000) {
                            d.u64(c as u64 ^ ((v as u64) << 32));
                            d.u64(format!("{m:?}").len() as u64);
                        }
                        d.u64(s.map_variant(0x4e00u32, 0xfe00u32).is_some() as u64);
                    }
                    Ok(_) => d.u64(5),
                    Err(e) => d.u64(err_code(&e)),
                }
            }
        }
    }
    if want(b"loca") || want(b"glyf") || want(b"head") || want(b"maxp") {
        if let (Ok(loca), Ok(glyf)) = (font.loca(None), font.glyf()) {
            d.u64(loca.all_offsets_are_ascending() as u64);
            d.u64(loca.len() as u64);
            for g in &sample_gids {
                match loca.get_glyf(GlyphId::new(*g), &glyf) {
                    Ok(Some(read_fonts::tables::glyf::Glyph::Simple(s))) => {
                        d.u64(s.num_points() as u64);
                        for p in s.points().take(4000) {
                            d.u64(((p.x as u16 as u64) << 17) ^ ((p.y as u16 as u64) << 1) ^ p.on_curve as u64);
                        }
                        d.u64(s.end_pts_of_contours().len() as u64);
                        d.u64(s.instructions().len() as u64);
                        let n = s.num_points();
                        if n < 10_000 {
                            let mut pts = vec![read_fonts::types::Point::<i32>::default(); n];
                            let mut fl = vec![read_fonts::tables::glyf::PointFlags::default(); n];
                            d.u64(s.read_points_fast(&mut pts, &mut fl).is_ok() as u64);
                        }
                        d.u64(s.has_overlapping_contours() as u64);
                    }
                    Ok(Some(read_fonts::tables::glyf::Glyph::Composite(c))) => {
                        // a component record takes at least 4 bytes
                        drain(c.components(), glyf.offset_data().len() / 4 + 1, 2000, "composite glyph components()", |comp| {
                            d.u64(comp.glyph.to_u16() as u64);
                            d.u64(comp.flags.bits() as u64);
                        });
                        d.u64(c.instructions().map(|i| i.len()).unwrap_or(0) as u64);
                        let (n, inst) = c.count_and_instructions();
                        d.u64(n as u64 ^ inst.map(|i| i.len() as u64).unwrap_or(0));
                    }
                    Ok(None) => d.u64(1),
                    Err(e) => d.u64(err_code(&e)),
                }
            }
        }
    }
    let axis_count = font.fvar().map(|f| f.axis_count()).unwrap_or(0) as usize;
    let coords: Vec<F2Dot14> = (0..axis_count.min(8)).map(|i| F2Dot14::from_bits([8192i16, -8192, 16384, 0, 3000, -16384, 1, -1][i])).collect();
    if want(b"gvar") || want(b"fvar") || want(b"glyf") || want(b"loca") {
        if let Ok(gvar) = font.gvar() {
            d.u64(gvar.axis_count() as u64);
            if let Ok(st) = gvar.shared_tuples() {
                d.u64(st.tuples().len() as u64);
            }
            for g in &sample_gids {
                match gvar.glyph_variation_data(GlyphId::new(*g)) {
                    Ok(Some(data)) => {
                        for t in data.tuples().take(64) {
                            d.u64(t.peak().values().len() as u64);
                            for dl in t.deltas().take(3000) {
                                d.u64((dl.position as u64) ^ ((dl.x_delta as u32 as u64) << 20) ^ ((dl.y_delta as u32 as u64) << 40));
                            }
                        }
                        for (t, scalar) in data.active_tuples_at(&coords).take(64) {
                            d.u64(scalar.to_bits() as u64);
                            d.u64(t.has_deltas_for_all_points() as u64);
                        }
                    }
                    Ok(None) => d.u64(2),
                    Err(e) => d.u64(err_code(&e)),
                }
                if let (Ok(glyf), Ok(loca)) = (font.glyf(), font.loca(None)) {
                    match gvar.phantom_point_deltas(&glyf, &loca, &coords, GlyphId::new(*g)) {
                        Ok(Some(p)) => d.u64(p[0].x.to_bits() as u64 ^ p[1].x.to_bits() as u64),
                        Ok(None) => d.u64(3),
                        Err(e) => d.u64(err_code(&e)),
                    }
                }
            }
        }
    }
    if want(b"cvar") || want(b"fvar") {
        if let Ok(cvar) = font.cvar() {
            let mut deltas = vec![0i32; font.cvt().map(|c| c.len()).unwrap_or(0)];
            d.u64(cvar.deltas(axis_count as u16, &coords, &mut deltas).is_ok() as u64);
            for x in deltas.iter().take(512) {
                d.u64(*x as u64);
            }
        }
    }
    if want(b"HVAR") || want(b"fvar") {
        if let Ok(hvar) = font.hvar() {
            for g in &sample_gids {
                d.u64(hvar.advance_width_delta(GlyphId::new(*g), &coords).map(|f| f.to_bits() as u64).unwrap_or(7));
                d.u64(hvar.lsb_delta(GlyphId::new(*g), &coords).map(|f| f.to_bits() as u64).unwrap_or(7));
            }
        }
    }
    if want(b"VVAR") || want(b"fvar") {
        if let Ok(vvar) = font.vvar() {
            for g in &sample_gids {
                d.u64(vvar.advance_height_delta(GlyphId::new(*g), &coords).map(|f| f.to_bits() as u64).unwrap_or(7));
            }
        }
    }
    if want(b"MVAR") || want(b"fvar") {
        if let Ok(mvar) = font.mvar() {
            for tag in [b"xhgt", b"cpht", b"hasc", b"undo", b"strs"] {
                d.u64(mvar.metric_delta(Tag::new(tag), &coords).map(|f| f.to_bits() as u64).unwrap_or(7));
            }
        }
    }
    if want(b"fvar") || want(b"avar") {
        if let Ok(fvar) = font.fvar() {
            if let Ok(axes) = fvar.axes() {
                for a in axes.iter().take(64) {
                    d.u64(a.axis_tag().to_be_bytes()[0] as u64);
                    for v in [-1000.0f64, 0.0, 400.0, 1e9] {
                        d.u64(a.normalize(read_fonts::types::Fixed::from_f64(v)).to_bits() as u64);
                    }
                }
            }
            if let Ok(inst) = fvar.instances() {
                for i in inst.iter().take(64) {
                    match i {
                        Ok(i) => d.u64(i.coordinates.len() as u64),
                        Err(e) => d.u64(err_code(&e)),
                    }
                }
            }
            let user: Vec<(Tag, read_fonts::types::Fixed)> = vec![(Tag::new(b"wght"), read_fonts::types::Fixed::from_f64(650.0)), (Tag::new(b"wdth"), read_fonts::types::Fixed::from_f64(80.0))];
            let mut norm = vec![F2Dot14::ZERO; axis_count.min(64)];
            fvar.user_to_normalized(font.avar().ok().as_ref(), user, &mut norm);
            for n in &norm {
                d.u64(n.to_bits() as u64);
            }
        }
    }
    if want(b"GSUB") {
        if let Ok(gsub) = font.gsub() {
            let mut set = read_fonts::collections::IntSet::<GlyphId16Alias>::empty();
            for g in sample_gids.iter().take(16) {
                if *g <= 0xFFFF {
                    set.insert(read_fonts::types::GlyphId16::new(*g as u16));
                }
            }
            match gsub.closure_glyphs(set) {
                Ok(out) => d.u64(out.len()),
                Err(e) => d.u64(err_code(&e)),
            }
        }
    }
    if want(b"name") {
        if let Ok(name) = font.name() {
            for r in name.name_record().iter().take(200) {
                match r.string(name.string_data()) {
                    Ok(s) => {
                        // a string of n bytes decodes to at most n characters
                        drain(s.chars(), r.length() as usize + 1, 2000, "name record string chars()", |c| d.u64(c as u64));
                    }
                    Err(e) => d.u64(err_code(&e)),
                }
            }
        }
    }
    if want(b"post") {
        if let Ok(post) = font.post() {
            for g in &sample_gids {
                if *g <= 0xFFFF {
                    d.u64(post.glyph_name(read_fonts::types::GlyphId16::new(*g as u16)).map(|s| s.len() as u64 + 1).unwrap_or(0));
                }
            }
        }
    }
    if want(b"CFF ") {
        if let Ok(cff) = font.cff() {
            d.u64(cff.names().count() as u64);
            for i in 0..cff.names().count().min(8) {
                d.u64(cff.names().get(i as usize).map(|x| x.len() as u64).unwrap_or(9));
            }
            for i in 0..cff.top_dicts().count().min(4) {
                if let Ok(td) = cff.top_dicts().get(i as usize) {
                    // every entry consumes at least one byte
                    drain(read_fonts::tables::postscript::dict::entries(td, None), td.len() + 1, 256, "CFF top DICT entries()", |e| d.u64(e.is_ok() as u64));
                }
            }
            for i in 0..cff.strings().count().min(400) {
                d.u64(cff.strings().get(i as usize).map(|x| x.len() as u64).unwrap_or(9));
            }
            match cff.charset(0) {
                Ok(Some(cs)) => {
                    let n = cs.num_glyphs();
                    d.u64(n as u64);
                    for g in [0u32, 1, 2, n / 4, n / 2, n / 2 + 1, (n / 4) * 3, n.saturating_sub(2), n.saturating_sub(1), n, 70_000] {
                        d.u64(cs.string_id(GlyphId::new(g)).map(|s| s.to_u16() as u64 + 1).unwrap_or(0));
                    }
                    let mut k = 0u64;
                    drain(cs.iter(), 70_000, 70_000, "CFF charset iter()", |(g, sid)| k = k.wrapping_mul(31).wrapping_add(g.to_u32() as u64 ^ ((sid.to_u16() as u64) << 20)));
                    d.u64(k);
                }
                Ok(None) => d.u64(7),
                Err(_) => d.u64(8),
            }
            let gs = cff.global_subrs();
            for i in 0..gs.count().min(400) {
                d.u64(gs.get(i as usize).map(|x| x.len() as u64).unwrap_or(9));
            }
        }
    }
    if want(b"CBLC") || want(b"CBDT") {
        if let (Ok(cblc), Ok(cbdt)) = (font.cblc(), font.cbdt()) {
            for size in cblc.bitmap_sizes().iter().take(8) {
                for g in &sample_gids {
                    match size.location(cblc.offset_data(), GlyphId::new(*g)) {
                        Ok(loc) => match cbdt.data(&loc) {
                            Ok(bd) => d.u64(match bd.content {
                                read_fonts::tables::bitmap::BitmapContent::Data(_, b) => b.len() as u64,
                                read_fonts::tables::bitmap::BitmapContent::Composite(c) => c.len() as u64 + 1_000_000,
                            }),
                            Err(e) => d.u64(err_code(&e)),
                        },
                        Err(e) => d.u64(err_code(&e)),
                    }
                }
            }
        }
    }
    if want(b"EBLC") || want(b"EBDT") {
        if let (Ok(eblc), Ok(ebdt)) = (font.eblc(), font.ebdt()) {
            for size in eblc.bitmap_sizes().iter().take(8) {
                for g in &sample_gids {
                    match size.location(eblc.offset_data(), GlyphId::new(*g)) {
                        Ok(loc) => match ebdt.data(&loc) {
                            Ok(bd) => d.u64(match bd.content {
                                read_fonts::tables::bitmap::BitmapContent::Data(_, b) => b.len() as u64,
                                read_fonts::tables::bitmap::BitmapContent::Composite(c) => c.len() as u64 + 1_000_000,
                            }),
                            Err(e) => d.u64(err_code(&e)),
                        },
                        Err(e) => d.u64(err_code(&e)),
                    }
                }
            }
        }
    }
    if want(b"VARC") {
        if let Ok(varc) = font.varc() {
            if let Ok(cov) = varc.coverage() {
                for (nth, _gid) in cov.iter().enumerate().take(64) {
                    match varc.glyph(nth) {
                        Ok(g) => {
                            for c in g.components().take(256) {
                                match c {
                                    Ok(_c) => d.u64(1),
                                    Err(e) => {
                                        d.u64(err_code(&e));
                                        break;
                                    }
                                }
                            }
                        }
                        Err(e) => d.u64(err_code(&e)),
                    }
                }
            }
            for i in 0..8 {
                d.u64(varc.axis_indices(i).map(|p| p.iter().take(64).count() as u64).unwrap_or(9));
            }
        }
    }
    if want(b"GDEF") {
        if let Ok(gdef) = font.gdef() {
            if let Some(Ok(cd)) = gdef.glyph_class_def() {
                for g in sample_gids.iter().take(24) {
                    if *g <= 0xFFFF {
                        d.u64(cd.get(read_fonts::types::GlyphId16::new(*g as u16)) as u64);
                    }
                }
                d.u64(cd.iter().take(5000).count() as u64);
            }
            if let Some(Ok(cd)) = gdef.mark_attach_class_def() {
                d.u64(cd.iter().take(5000).count() as u64);
            }
        }
    }
    if want(b"GPOS") {
        if let Ok(gpos) = font.gpos() {
            if let Ok(ll) = gpos.lookup_list() {
                for l in ll.lookups().iter().take(64).flatten() {
                    use read_fonts::tables::gpos::PositionSubtables;
                    match l.subtables() {
                        Ok(PositionSubtables::Single(st)) => {
                            for t in st.iter().take(16).flatten() {
                                let c = match &t {
                                    read_fonts::tables::gpos::SinglePos::Format1(x) => x.coverage(),
                                    read_fonts::tables::gpos::SinglePos::Format2(x) => x.coverage(),
                                };
                                if let Ok(c) = c {
                                    d.u64(c.iter().take(5000).count() as u64);
                                    for g in sample_gids.iter().take(8) {
                                        if *g <= 0xFFFF {
                                            d.u64(c.get(read_fonts::types::GlyphId16::new(*g as u16)).map(|x| x as u64 + 1).unwrap_or(0));
                                        }
                                    }
                                }
                            }
                        }
                        Ok(PositionSubtables::Pair(st)) => {
                            for t in st.iter().take(16).flatten() {
                                let c = match &t {
                                    read_fonts::tables::gpos::PairPos::Format1(x) => x.coverage(),
                                    read_fonts::tables::gpos::PairPos::Format2(x) => x.coverage(),
                                };
                                if let Ok(c) = c {
                                    d.u64(c.iter().take(5000).count() as u64);
                                }
                            }
                        }
                        Ok(PositionSubtables::MarkToBase(st)) => {
                            for t in st.iter().take(16).flatten() {
                                if let Ok(c) = t.mark_coverage() {
                                    d.u64(c.iter().take(5000).count() as u64);
                                }
                                if let Ok(c) = t.base_coverage() {
                                    d.u64(c.iter().take(5000).count() as u64);
                                }
                            }
                        }
                        Ok(_) => d.u64(4),
                        Err(e) => d.u64(err_code(&e)),
                    }
                }
            }
        }
    }
    if want(b"CFF2") {
        if let Ok(cff2) = font.cff2() {
            for e in read_fonts::tables::postscript::dict::entries(cff2.top_dict_data(), None).take(cff2.top_dict_data().len() + 1) {
                d.u64(e.is_ok() as u64);
            }
            let gs = cff2.global_subrs();
            for i in 0..gs.count().min(400) {
                d.u64(gs.get(i as usize).map(|x| x.len() as u64).unwrap_or(9));
            }
        }
    }
}

type GlyphId16Alias = read_fonts::types::GlyphId16;

/// Opens an image as file / font / collection and sweeps every font in it.
pub fn sweep_image(bytes: &[u8], only: Option<Tag>, seed: u64, max_nodes: u64) -> (u64, bool) {
    let mut d = Digest::new();
    let mut rng = Rng::new(seed);
    let mut exhausted = false;
    match FileRef::new(bytes) {
        Ok(FileRef::Font(f)) => {
            d.u64(1);
            exhausted |= sweep_font(&f, &mut d, max_nodes, only, &mut rng);
        }
        Ok(FileRef::Collection(c)) => {
            d.u64(c.len() as u64);
            for i in 0..c.len().min(8) {
                match c.get(i) {
                    Ok(f) => exhausted |= sweep_font(&f, &mut d, max_nodes, only, &mut rng),
                    Err(e) => d.u64(err_code(&e)),
                }
            }
            for f in c.iter().take(8) {
                d.u64(f.is_ok() as u64);
            }
        }
        Err(e) => d.u64(err_code(&e)),
    }
    for idx in [0u32, 1, 7] {
        d.u64(FontRef::from_index(bytes, idx).is_ok() as u64);
    }
    if let Ok(f) = FontRef::new(bytes) {
        for r in f.table_directory.table_records().iter().take(64) {
            d.u64(f.table_data(r.tag()).map(|x| x.len() as u64).unwrap_or(0));
        }
    }
    (d.finish(), exhausted)
}

// ------------------------------------------------------------------ engines

fn gen_trace(rng: &mut Rng) -> ImageTrace {
    let imgs = images();
    let image = rng.usize_below(imgs.len());
    let img = &imgs[image];
    let table_level = !img.tables.is_empty() && rng.chance(3, 4);
    let (table, len) = if table_level {
        let (t, _, l) = *rng.pick(&img.tables);
        (Some(t.to_be_bytes()), l)
    } else {
        (None, img.data.len())
    };
    let n = *rng.pick(&[1usize, 1, 1, 2, 3]);
    let faults = (0..n).map(|_| gen_fault(rng, len, img.other.is_some())).collect();
    let mut torn_tables = Vec::new();
    if table_level && img.other.is_some() && rng.chance(1, 4) {
        for _ in 0..(1 + rng.below(3)) {
            torn_tables.push(rng.pick(&img.tables).0.to_be_bytes());
        }
    }
    ImageTrace { image, table, faults, torn_tables, sweep_seed: rng.next_u64() }
}

fn shrink_trace(t: &ImageTrace) -> Vec<ImageTrace> {
    let mut out = Vec::new();
    for f in crate::core::drop_chunks(&t.faults) {
        out.push(ImageTrace { faults: f, ..t.clone() });
    }
    for f in crate::core::drop_chunks(&t.torn_tables) {
        out.push(ImageTrace { torn_tables: f, ..t.clone() });
    }
    out
}

pub struct ReadImages;

impl Engine for ReadImages {
    type Trace = ImageTrace;
    fn name(&self) -> &'static str {
        "image_faults_read"
    }
    fn rule(&self) -> &'static str {
        "case = corpus image + 1-3 storage/transport faults (short read, bit flip, zeroed/duplicated/shifted sector, byte tear and table tear against a subset of the same font, slot overwritten by another slot, field set to an extreme), applied to the raw file or to one table's payload with the sfnt re-assembled around it; then a complete read: every TableProvider accessor, generic traversal of the whole table graph, hand-written helpers; plus the repeat / other-thread / 8-alignment determinism clause on a sample; non-trivial iff a fault landed"
    }
    fn components(&self) -> &'static str {
        "real: read-fonts FileRef/FontRef/CollectionRef, TableProvider, experimental_traverse over all tables, cmap/loca/glyf/gvar/cvar/HVAR/VVAR/MVAR/fvar/avar/GSUB closure/name/post/CFF helpers; stub: fault injector over stored images, walker budgets (harness-owned)"
    }
    fn generate(&self, case_seed: u64) -> ImageTrace {
        gen_trace(&mut Rng::new(case_seed))
    }
    fn execute(&self, t: &mut ImageTrace, stats: &mut Stats) -> Verdict {
        let Some(img) = faulted_image(t, stats) else {
            return Verdict::Pass { digest: 0, sig: fnv(serde_json::to_string(&*t).unwrap_or_default().as_bytes()), nontrivial: false };
        };
        let only = None;
        let (dg, exhausted) = sweep_image(&img, only, t.sweep_seed, 300_000);
        if let Some(what) = take_overrun() {
            return Verdict::Fail(Violation::new("C01", "C01.iteration_exceeds_input", what));
        }
        if exhausted {
            stats.bump("probe.C01.walker_budget_reached");
        }
        stats.bump("oracle.C01.total_read");
        // determinism clause on a sample of cases: repeat, other thread, 8 alignments
        if t.sweep_seed % 16 == 0 {
            stats.bump("oracle.C01.repeat_thread_alignment");
            let (again, _) = sweep_image(&img, only, t.sweep_seed, 300_000);
            if again != dg {
                return Verdict::Fail(Violation::new("C01", "C01.not_a_function_of_bytes", "reading the same bytes twice gives different observations".to_string()));
            }
            let copy = img.clone();
            let seed = t.sweep_seed;
            let other = std::thread::spawn(move || sweep_image(&copy, None, seed, 300_000).0).join();
            match other {
                Ok(o) if o == dg => {}
                Ok(_) => return Verdict::Fail(Violation::new("C01", "C01.not_a_function_of_bytes", "another thread observes different values for the same bytes".to_string())),
                Err(_) => std::panic::resume_unwind(Box::new("reader panicked on another thread")),
            }
            let mut arena = vec![0u8; img.len() + 16];
            for off in 0..8 {
                arena[off..off + img.len()].copy_from_slice(&img);
                let (o, _) = sweep_image(&arena[off..off + img.len()], only, t.sweep_seed, 300_000);
                if o != dg {
                    return Verdict::Fail(Violation::new("C01", "C01.not_a_function_of_bytes", format!("observations change when the bytes sit at alignment {off}")));
                }
            }
        }
        Verdict::Pass { digest: dg, sig: fnv(serde_json::to_string(&(&t.image, &t.table, &t.faults, &t.torn_tables)).unwrap_or_default().as_bytes()), nontrivial: true }
    }
    fn shrink(&self, t: &ImageTrace) -> Vec<ImageTrace> {
        shrink_trace(t)
    }
}

// ---- subsetting under the overflow-checked build (C20's "subsetting-plan" clause)

#[derive(Clone, Debug, Serialize, Deserialize)]
pub struct SubsetTrace {
    pub img: ImageTrace,
    /// kept glyph ids: first, first+step, ... (count of them)
    pub first: u32,
    pub step: u32,
    pub count: u32,
    pub unicodes: Vec<u32>,
    pub flags: u16,
}

pub struct SubsetImages;

fn truetype_images() -> &'static [usize] {
    static P: OnceLock<Vec<usize>> = OnceLock::new();
    P.get_or_init(|| {
        images()
            .iter()
            .enumerate()
            .filter(|(_, i)| FontRef::new(i.data).map(|f| f.glyf().is_ok() && f.loca(None).is_ok() && f.cmap().is_ok() && f.maxp().is_ok() && f.head().is_ok() && f.hmtx().is_ok()).unwrap_or(false))
            .map(|(k, _)| k)
            .collect()
    })
}

impl Engine for SubsetImages {
    type Trace = SubsetTrace;
    fn name(&self) -> &'static str {
        "subset_images"
    }
    fn rule(&self) -> &'static str {
        "case = pristine corpus font + a glyph-id progression (first, step, count: from a handful of glyphs to all of them, so that the subset's glyf size lands on both sides of the short/long loca boundary) + code points + subsetter flags; klippa builds the plan and the subset; judged by the absence of overflow / debug-assertion panics (C20); non-trivial iff the subsetter produced a font"
    }
    fn components(&self) -> &'static str {
        "real: klippa Plan::new and subset_font (all table subsetters), write-fonts serializer and FontBuilder, read-fonts; stub: none (no fault axis: requests are the quantifier)"
    }
    fn generate(&self, case_seed: u64) -> SubsetTrace {
        let mut rng = Rng::new(case_seed);
        // The subsetter is only claimed for well-formed fonts (no listed property makes it total over damaged
        // bytes, and it is not), so the fonts are the pristine corpus; the request is the varied input.
        let mut img = gen_trace(&mut rng);
        img.faults.clear();
        img.torn_tables.clear();
        // TrueType-flavoured fonts only (the subsetter's documented domain)
        let tt = truetype_images();
        if !tt.is_empty() {
            img.image = tt[rng.usize_below(tt.len())];
        }
        let step = *rng.pick(&[1u32, 1, 1, 2, 3, 5, 17]);
        let count = *rng.pick(&[1u32, 3, 20, 200, 700, 2000, 70_000]);
        let unicodes = (0..rng.below(12)).map(|_| *rng.pick(&[0x20u32, 0x41, 0x61, 0xE9, 0x627, 0x915, 0x4E00, 0x1F600, 0xFE0F])  + rng.below(30) as u32).collect();
        SubsetTrace { img, first: rng.below(40) as u32, step, count, unicodes, flags: *rng.pick(&[0u16, 1, 2, 0x10, 0x40, 0x43, 0x200, 0x3FF]) }
    }
    fn execute(&self, t: &mut SubsetTrace, stats: &mut Stats) -> Verdict {
        let pristine = images()[t.img.image].data;
        let bytes = if t.img.faults.is_empty() && t.img.torn_tables.is_empty() { Some(pristine.to_vec()) } else { faulted_image(&t.img, stats) };
        let Some(bytes) = bytes else { return Verdict::Pass { digest: 0, sig: 0, nontrivial: false } };
        let n = FontRef::new(pristine).ok().and_then(|f| f.maxp().ok().map(|m| m.num_glyphs() as u32)).unwrap_or(0);
        let gids: Vec<u32> = (0..t.count).map(|i| t.first + i * t.step).take_while(|g| *g < n.max(1)).collect();
        let r = crate::engines::compile::subset_font(&bytes, &gids, &t.unicodes, t.flags);
        stats.bump("oracle.C20.subsetter_ran_in_checked_build");
        let mut d = Digest::new();
        let ok = match &r {
            Ok(f) => {
                d.bytes(f);
                stats.bump("probe.subset.produced_a_font");
                if let Ok(fr) = FontRef::new(f) {
                    if fr.head().map(|h| h.index_to_loc_format()).unwrap_or(0) == 1 {
                        stats.bump("probe.subset.long_loca_chosen");
                    } else if fr.table_data(Tag::new(b"glyf")).map(|g| g.len() > 65_535).unwrap_or(false) {
                        stats.bump("probe.subset.short_loca_with_glyf_above_64k");
                    }
                }
                true
            }
            Err(e) => {
                d.bytes(e.as_bytes());
                false
            }
        };
        Verdict::Pass { digest: d.finish(), sig: fnv(serde_json::to_string(&(&t.img.image, &t.img.table, &t.img.faults, &t.img.torn_tables, t.first, t.step, t.count, &t.unicodes, t.flags)).unwrap_or_default().as_bytes()), nontrivial: ok }
    }
    fn shrink(&self, t: &SubsetTrace) -> Vec<SubsetTrace> {
        let mut out: Vec<SubsetTrace> = shrink_trace(&t.img).into_iter().map(|img| SubsetTrace { img, ..t.clone() }).collect();
        if !t.unicodes.is_empty() {
            out.push(SubsetTrace { unicodes: vec![], ..t.clone() });
        }
        if t.flags != 0 {
            out.push(SubsetTrace { flags: 0, ..t.clone() });
        }
        if t.count > 1 {
            out.push(SubsetTrace { count: t.count / 2, ..t.clone() });
            out.push(SubsetTrace { count: t.count - 1, ..t.clone() });
        }
        if t.first > 0 {
            out.push(SubsetTrace { first: 0, ..t.clone() });
        }
        if t.step > 1 {
            out.push(SubsetTrace { step: 1, ..t.clone() });
        }
        out
    }
}

// ---- systematic enumerations: every short read and every header bit flip of one table

#[derive(Clone, Debug, Serialize, Deserialize)]
pub struct EnumTrace {
    pub image: usize,
    pub table: [u8; 4],
    /// restrict to one fault when replaying a minimised failure
    #[serde(default)]
    pub only: Option<ImgFault>,
    pub cuts: u32,
    pub bits: u32,
    /// first byte of the window in which bits are flipped and bytes are set to 0x00 / 0xFF (0: table start)
    #[serde(default)]
    pub start: u32,
    /// also set every byte of the window to 0x00 and to 0xFF
    #[serde(default)]
    pub byte_sets: bool,
}

pub struct ReadEnum {
    pub skrifa: bool,
}

pub fn table_pairs() -> &'static [(usize, [u8; 4], usize)] {
    static P: OnceLock<Vec<(usize, [u8; 4], usize)>> = OnceLock::new();
    P.get_or_init(|| {
        let mut v = Vec::new();
        for (i, img) in images().iter().enumerate() {
            for (t, _, l) in &img.tables {
                v.push((i, t.to_be_bytes(), *l));
            }
        }
        v
    })
}

impl Engine for ReadEnum {
    type Trace = EnumTrace;
    fn name(&self) -> &'static str {
        if self.skrifa {
            "image_header_faults_enumerated_skrifa"
        } else {
            "image_header_faults_enumerated_read"
        }
    }
    fn rule(&self) -> &'static str {
        "case = one (corpus font, table) pair, chosen by case index so that consecutive indices cover all pairs; inside the case EVERY prefix length of the table's first bytes (short read) and EVERY single-bit flip of its first bytes is applied in turn, the sfnt re-assembled, and the table's own reader plus its dependents swept; non-trivial iff the table is non-empty"
    }
    fn components(&self) -> &'static str {
        "real: read-fonts readers and traversal (or the skrifa sweep) for the faulted table; stub: fault injector, walker budgets"
    }
    fn generate(&self, case_seed: u64) -> EnumTrace {
        self.generate_indexed(case_seed, case_seed)
    }
    fn generate_indexed(&self, index: u64, _case_seed: u64) -> EnumTrace {
        // consecutive case indices walk through all (font, table) pairs; later rounds deepen the enumeration
        let p = table_pairs();
        let (image, table, _) = p[(index % p.len() as u64) as usize];
        let round = (index / p.len() as u64) as u32;
        if self.skrifa && images()[image].extended {
            // a glyph-loading sweep of a real-world font costs tens of milliseconds: fewer faults per case, later
            // rounds continue where earlier ones stopped
            return EnumTrace { image, table, only: None, cuts: if round == 0 { 32 } else { 0 }, bits: 16 * 8, start: 16 * round.min(15), byte_sets: false };
        }
        EnumTrace { image, table, only: None, cuts: 96 + 160 * round.min(3), bits: (48 + 80 * round.min(3)) * 8, start: 0, byte_sets: false }
    }
    fn execute(&self, t: &mut EnumTrace, stats: &mut Stats) -> Verdict {
        enum_execute(self.skrifa, t, stats)
    }
    fn shrink(&self, _t: &EnumTrace) -> Vec<EnumTrace> {
        vec![]
    }
}

fn enum_execute(skrifa: bool, t: &mut EnumTrace, stats: &mut Stats) -> Verdict {
    {
        let img = &images()[t.image];
        let Ok(fr) = FontRef::new(img.data) else { return Verdict::Inconclusive("corpus image does not open".into()) };
        let tag = Tag::new(&t.table);
        let Some(payload) = fr.table_data(tag) else { return Verdict::Inconclusive("table missing".into()) };
        let payload = payload.as_bytes().to_vec();
        let mut faults: Vec<ImgFault> = Vec::new();
        match &t.only {
            Some(f) => faults.push(f.clone()),
            None => {
                for cut in 0..payload.len().min(t.cuts as usize) {
                    faults.push(ImgFault::Truncate { at: cut as u32 });
                }
                let first = t.start as usize * 8;
                for bit in first..(payload.len() * 8).min(first + t.bits as usize) {
                    faults.push(ImgFault::BitFlip { bit: bit as u32 });
                }
                if t.byte_sets {
                    for at in t.start as usize..payload.len().min(t.start as usize + t.bits as usize / 8) {
                        for v in [0u8, 0xFF] {
                            if payload[at] != v {
                                faults.push(ImgFault::SetByte { at: at as u32, v });
                            }
                        }
                    }
                }
            }
        }
        let mut d = Digest::new();
        for f in faults {
            let mut p = payload.clone();
            if !apply_fault(&mut p, None, &f) {
                continue;
            }
            stats.bump(fault_counter(&f, true));
            let mut b = write_fonts::FontBuilder::new();
            b.add_raw(tag, p);
            b.copy_missing_tables(fr.clone());
            let image = b.build();
            // record which fault is in flight so that a panic can be replayed alone
            t.only = Some(f.clone());
            if skrifa {
                let mut sub = Stats::default();
                d.u64(skrifa_sweep(&image, mix(t.image as u64, 7), Some(tag), &mut sub, 6, 3));
                stats.bump("oracle.C02.total_sweep");
                if let Some(what) = take_overrun() {
                    return Verdict::Fail(Violation::new("C02", "C02.iteration_exceeds_input", format!("{what} (fault {f:?})")));
                }
            } else {
                let (dg, _) = sweep_image(&image, Some(tag), 1, 100_000);
                d.u64(dg);
                stats.bump("oracle.C01.total_read");
                if let Some(what) = take_overrun() {
                    return Verdict::Fail(Violation::new("C01", "C01.iteration_exceeds_input", format!("{what} (fault {f:?})")));
                }
            }
        }
        t.only = None;
        Verdict::Pass { digest: d.finish(), sig: fnv(&[t.image as u8, (t.image >> 8) as u8, t.table[0], t.table[1], t.table[2], t.table[3], (t.cuts / 32) as u8, (t.start / WINDOW) as u8, (t.start / WINDOW / 256) as u8]), nontrivial: !payload.is_empty() }
    }
}

// ---- systematic enumeration beyond the headers: every bit and two byte values of one 64-byte window

pub const WINDOW: u32 = 64;
const WINDOWS_BEGIN: u32 = 256;

/// (image, tag, window start): breadth first, i.e. the first window of every table, then the second, ...
fn table_windows() -> &'static [(usize, [u8; 4], u32)] {
    static P: OnceLock<Vec<(usize, [u8; 4], u32)>> = OnceLock::new();
    P.get_or_init(|| {
        let mut v = Vec::new();
        let mut start = WINDOWS_BEGIN;
        loop {
            let mut any = false;
            for (i, t, l) in table_pairs() {
                // outline tables have their own enumeration with drawing (C02); bulk data tables carry no structure
                if matches!(t, b"glyf" | b"CFF " | b"CFF2" | b"gvar" | b"CBDT" | b"EBDT" | b"sbix" | b"SVG ") {
                    continue;
                }
                if *l as u32 > start {
                    v.push((*i, *t, start));
                    any = true;
                }
            }
            start += WINDOW;
            if !any || start > 64 * 1024 {
                break;
            }
        }
        v
    })
}

pub struct ReadWindowEnum;

impl Engine for ReadWindowEnum {
    type Trace = EnumTrace;
    fn name(&self) -> &'static str {
        "table_windows_enumerated_read"
    }
    fn rule(&self) -> &'static str {
        "case = one 64-byte window of one (corpus font, table) pair beyond the first 256 bytes, chosen by case index breadth first (window k of every table before window k+1 of any); inside the case EVERY single-bit flip and every byte set to 0x00 and 0xFF in the window is applied in turn, the sfnt re-assembled, and the table's reader, traversal and helpers swept; non-trivial always"
    }
    fn components(&self) -> &'static str {
        "real: read-fonts readers, traversal and the table's helper functions for the faulted table; stub: fault injector, walker budgets"
    }
    fn generate(&self, case_seed: u64) -> EnumTrace {
        self.generate_indexed(case_seed, case_seed)
    }
    fn generate_indexed(&self, index: u64, _case_seed: u64) -> EnumTrace {
        let w = table_windows();
        let (image, table, start) = w[(index % w.len() as u64) as usize];
        EnumTrace { image, table, only: None, cuts: 0, bits: WINDOW * 8, start, byte_sets: true }
    }
    fn execute(&self, t: &mut EnumTrace, stats: &mut Stats) -> Verdict {
        enum_execute(false, t, stats)
    }
    fn shrink(&self, _t: &EnumTrace) -> Vec<EnumTrace> {
        vec![]
    }
}

pub fn table_window_count() -> u64 {
    table_windows().len() as u64
}

// ------------------------------------------------------------------ skrifa sweep (C02 surface 3)

struct NullPainter(u64);
impl skrifa::color::ColorPainter for NullPainter {
    fn push_transform(&mut self, _t: skrifa::color::Transform) {
        self.0 += 1
    }
    fn pop_transform(&mut self) {
        self.0 += 1
    }
    fn push_clip_glyph(&mut self, _g: GlyphId) {
        self.0 += 1
    }
    fn push_clip_box(&mut self, _b: read_fonts::types::BoundingBox<f32>) {
        self.0 += 1
    }
    fn pop_clip(&mut self) {
        self.0 += 1
    }
    fn fill(&mut self, _b: skrifa::color::Brush<'_>) {
        self.0 += 1
    }
    fn push_layer(&mut self, _m: skrifa::color::CompositeMode) {
        self.0 += 1
    }
    fn pop_layer(&mut self) {
        self.0 += 1
    }
}

/// Sweeps the public glyph-loading API over an image. Returns an observation digest.
pub fn skrifa_sweep(bytes: &[u8], seed: u64, focus: Option<Tag>, stats: &mut Stats, max_glyphs: usize, max_cfgs: usize) -> u64 {
    use skrifa::instance::{LocationRef, Size};
    use skrifa::outline::{DrawSettings, HintingInstance, HintingOptions};
    use skrifa::MetadataProvider;
    let mut d = Digest::new();
    let mut rng = Rng::new(seed);
    let Ok(font) = FontRef::new(bytes) else {
        d.u64(1);
        return d.finish();
    };
    let _ = focus;
    // ---- metadata (always complete)
    let attrs = font.attributes();
    d.u64(attrs.weight.value().to_bits() as u64 ^ attrs.stretch.ratio().to_bits() as u64);
    let axes = font.axes();
    d.u64(axes.len() as u64);
    for a in axes.iter().take(32) {
        d.u64(a.min_value().to_bits() as u64 ^ a.max_value().to_bits() as u64 ^ a.default_value().to_bits() as u64);
        d.u64(a.normalize(450.0).to_bits() as u64);
    }
    let loc = axes.location([("wght", 650.0f32), ("wdth", 80.0), ("opsz", f32::NAN)]);
    let mut loc_slice = vec![skrifa::instance::NormalizedCoord::default(); axes.len().min(64)];
    axes.location_to_slice([("wght", 1e9f32), ("slnt", -12.0)], &mut loc_slice);
    for ni in font.named_instances().iter().take(32) {
        d.u64(ni.user_coords().count() as u64);
        d.u64(ni.location().coords().len() as u64);
    }
    for id in [skrifa::string::StringId::FAMILY_NAME, skrifa::string::StringId::POSTSCRIPT_NAME, skrifa::string::StringId::new(300)] {
        for s in font.localized_strings(id).take(16) {
            let mut n = 0u64;
            drain(s.chars(), 70_000, 70_000, "localized string chars()", |_| n += 1);
            d.u64(n);
            d.u64(s.language().map(|l| l.len()).unwrap_or(0) as u64);
        }
    }
    let gn = font.glyph_names();
    d.u64(gn.num_glyphs() as u64);
    let ng = gn.num_glyphs();
    for g in [0u32, 1, 5, ng / 4, ng / 2, ng / 2 + 1, (ng / 4) * 3, ng.saturating_sub(1), ng, 70000] {
        d.u64(gn.get(GlyphId::new(g)).map(|n| n.len() as u64).unwrap_or(0));
    }
    let mut k = 0u64;
    drain(gn.iter(), 70_000, 70_000, "GlyphNames::iter()", |(g, n)| k = k.wrapping_mul(31).wrapping_add(g.to_u32() as u64 ^ ((n.len() as u64) << 20)));
    d.u64(k);
    let zero: Vec<skrifa::instance::NormalizedCoord> = vec![];
    let locs: [&[skrifa::instance::NormalizedCoord]; 2] = [&zero, loc.coords()];
    for coords in locs {
        for size in [Size::unscaled(), Size::new(16.0), Size::new(f32::NAN), Size::new(f32::INFINITY), Size::new(-3.0)] {
            let m = font.metrics(size, LocationRef::new(coords));
            d.u64(m.ascent.to_bits() as u64 ^ m.descent.to_bits() as u64 ^ m.units_per_em as u64);
            d.u64(m.underline.map(|u| u.offset.to_bits() as u64).unwrap_or(0));
            let gm = font.glyph_metrics(size, LocationRef::new(coords));
            d.u64(gm.glyph_count() as u64);
            for g in [0u32, 1, 2, 3, 40, 65535, 1 << 20] {
                d.u64(gm.advance_width(GlyphId::new(g)).map(|x| x.to_bits() as u64).unwrap_or(1));
                d.u64(gm.left_side_bearing(GlyphId::new(g)).map(|x| x.to_bits() as u64).unwrap_or(1));
                d.u64(gm.bounds(GlyphId::new(g)).map(|b| b.x_min.to_bits() as u64).unwrap_or(1));
            }
        }
    }
    let cm = font.charmap();
    d.u64(cm.has_map() as u64 ^ (cm.is_symbol() as u64) << 1 ^ (cm.has_variant_map() as u64) << 2);
    for cp in [0u32, 0x20, 0x41, 0x5D0, 0xF020, 0xFFFF, 0x10000, 0x10FFFF] {
        d.u64(cm.map(cp).map(|g| g.to_u32() as u64 + 1).unwrap_or(0));
    }
    for (c, g) in cm.mappings().take(3000) {
        d.u64(((c as u64) << 24) ^ g.to_u32() as u64);
    }
    for (c, v, m) in cm.variant_mappings().take(500) {
        d.u64(c as u64 ^ v as u64);
        d.u64(format!("{m:?}").len() as u64);
    }
    d.u64(cm.map_variant(0x4e00u32, 0xfe00u32).is_some() as u64);
    // ---- outlines
    let outlines = font.outline_glyphs();
    d.u64(outlines.format().map(|f| f as u64 + 1).unwrap_or(0));
    d.u64(outlines.prefer_interpreter() as u64 ^ (outlines.require_interpreter() as u64) << 1);
    let n = font.maxp().map(|m| m.num_glyphs() as u32).unwrap_or(0);
    let mut gids: Vec<u32> = if n as usize <= max_glyphs { (0..n).collect() } else { (0..max_glyphs).map(|_| rng.below(n as u64) as u32).collect() };
    gids.push(n);
    gids.push(0xFFFF);
    // configurations
    let sizes = [Size::unscaled(), Size::new(12.0), Size::new(33.3), Size::new(1000.0), Size::new(f32::NAN), Size::new(f32::INFINITY), Size::new(0.0), Size::new(150_000.0), Size::new(4.0e6)];
    let mut cfgs: Vec<(usize, usize, u8, u8)> = Vec::new();
    for _ in 0..max_cfgs {
        cfgs.push((rng.usize_below(sizes.len()), rng.usize_below(2), rng.below(3) as u8, rng.below(7) as u8));
    }
    let mut insts: Vec<Option<HintingInstance>> = Vec::new();
    for (si, li, eng, tgt) in &cfgs {
        let coords = if *li == 0 { &zero[..] } else { loc.coords() };
        let r = HintingInstance::new(&outlines, sizes[*si], LocationRef::new(coords), HintingOptions { engine: crate::engines::drawhist::engine_of(*eng), target: crate::engines::drawhist::target_of(*tgt) });
        d.u64(r.is_ok() as u64);
        if let Ok(i) = &r {
            d.u64(i.is_enabled() as u64);
        }
        insts.push(r.ok());
    }
    let mut scratch = vec![0xA5u8; 1 << 16];
    for g in &gids {
        let Some(glyph) = outlines.get(GlyphId::new(*g)) else {
            d.u64(0);
            continue;
        };
        d.u64(glyph.has_overlaps().map(|b| b as u64 + 1).unwrap_or(0));
        d.u64(glyph.has_hinting().map(|b| b as u64 + 1).unwrap_or(0));
        for (ci, (si, li, _, _)) in cfgs.iter().enumerate() {
            let coords = if *li == 0 { &zero[..] } else { loc.coords() };
            for hb in [false, true] {
                let style = if hb { skrifa::outline::pen::PathStyle::HarfBuzz } else { skrifa::outline::pen::PathStyle::FreeType };
                let mut rec = Recording::default();
                let r = glyph.draw(DrawSettings::unhinted(sizes[*si], LocationRef::new(coords)).with_path_style(style), &mut rec);
                d.u64(r.is_ok() as u64);
                d.u64(rec.cmds.len() as u64);
                stats.bump("sim.draws");
                // caller memory: exact advertised size and one byte short
                let need = glyph.draw_memory_size(skrifa::outline::Hinting::None);
                if need + 1 < scratch.len() {
                    for sz in [need, need.saturating_sub(1), need / 2] {
                        let mut rec2 = Recording::default();
                        let r2 = glyph.draw(DrawSettings::unhinted(sizes[*si], LocationRef::new(coords)).with_path_style(style).with_memory(Some(&mut scratch[1..1 + sz])), &mut rec2);
                        d.u64(r2.is_ok() as u64);
                    }
                }
            }
            if let Some(inst) = &insts[ci] {
                for pedantic in [false, true] {
                    let mut rec = Recording::default();
                    let r = glyph.draw(DrawSettings::hinted(inst, pedantic), &mut rec);
                    d.u64(r.is_ok() as u64);
                    d.u64(rec.cmds.len() as u64);
                    stats.bump("sim.draws");
                }
                let need = glyph.draw_memory_size(skrifa::outline::Hinting::Embedded);
                if need + 1 < scratch.len() {
                    let mut rec2 = Recording::default();
                    let r2 = glyph.draw(DrawSettings::hinted(inst, false).with_memory(Some(&mut scratch[3..3 + need.saturating_sub(2)])), &mut rec2);
                    d.u64(r2.is_ok() as u64);
                }
            }
        }
    }
    // ---- colour
    let cg = font.color_glyphs();
    for g in gids.iter().take(12) {
        for fmt in [skrifa::color::ColorGlyphFormat::ColrV1, skrifa::color::ColorGlyphFormat::ColrV0] {
            if let Some(c) = cg.get_with_format(GlyphId::new(*g), fmt) {
                let mut p = NullPainter(0);
                let r = c.paint(LocationRef::new(loc.coords()), &mut p);
                d.u64(r.is_ok() as u64 ^ (p.0 << 1));
                d.u64(c.bounding_box(LocationRef::new(loc.coords()), Size::new(f32::NAN)).is_some() as u64);
                stats.bump("sim.paints");
            }
        }
    }
    d.finish()
}

pub struct SkrifaImages;

impl Engine for SkrifaImages {
    type Trace = ImageTrace;
    fn name(&self) -> &'static str {
        "image_faults_skrifa"
    }
    fn rule(&self) -> &'static str {
        "case = corpus image + 1-3 storage/transport faults (as image_faults_read, including table tears between a font and its subset), then a sweep of the glyph-loading API: complete metadata (attributes, axes/location, named instances, strings, glyph names, metrics and glyph metrics at unscaled/finite/NaN/inf/negative sizes, charmap, bitmap strikes), and sampled glyphs x {unhinted both path styles with library and caller memory (exact, short), hinted by sampled engine x target x pedantic} x locations, colour paint and bounding box; judged by totality; non-trivial iff a fault landed"
    }
    fn components(&self) -> &'static str {
        "real: skrifa MetadataProvider surface, outline drawing (glyf/CFF/CFF2, interpreter, auto-hinter), colour painting, bitmap strikes; stub: fault injector, recording pen, null painter, caller memory"
    }
    fn generate(&self, case_seed: u64) -> ImageTrace {
        gen_trace(&mut Rng::new(case_seed))
    }
    fn execute(&self, t: &mut ImageTrace, stats: &mut Stats) -> Verdict {
        let Some(img) = faulted_image(t, stats) else {
            return Verdict::Pass { digest: 0, sig: fnv(serde_json::to_string(&*t).unwrap_or_default().as_bytes()), nontrivial: false };
        };
        let dg = skrifa_sweep(&img, t.sweep_seed, t.table.map(|x| Tag::new(&x)), stats, 10, 4);
        if let Some(what) = take_overrun() {
            return Verdict::Fail(Violation::new("C02", "C02.iteration_exceeds_input", what));
        }
        stats.bump("oracle.C02.total_sweep");
        Verdict::Pass { digest: dg, sig: fnv(serde_json::to_string(&(&t.image, &t.table, &t.faults, &t.torn_tables)).unwrap_or_default().as_bytes()), nontrivial: true }
    }
    fn shrink(&self, t: &ImageTrace) -> Vec<ImageTrace> {
        shrink_trace(t)
    }
}

/// External read arguments skewed against the data (glyph count, loca format, metric counts).
#[derive(Clone, Debug, Serialize, Deserialize)]
pub struct ArgsTrace {
    pub image: usize,
    pub use_other_version_args: bool,
    pub skew: i32,
    pub cut_permille: u32,
}

pub struct SkewedArgs;

impl Engine for SkewedArgs {
    type Trace = ArgsTrace;
    fn name(&self) -> &'static str {
        "read_args_skewed"
    }
    fn rule(&self) -> &'static str {
        "case = corpus font whose argument-taking tables (loca: long/short; hmtx/vmtx: number of long metrics and glyph count; hdmx: glyph count) are read directly with arguments skewed by +-1, 0, 0xFFFF or taken from the subset of the same font (torn pair), optionally on a truncated payload, then traversed; non-trivial iff any such table exists"
    }
    fn components(&self) -> &'static str {
        "real: read-fonts FontReadWithArgs readers for loca, hmtx, vmtx, hdmx and their accessors; stub: argument skew"
    }
    fn generate(&self, case_seed: u64) -> ArgsTrace {
        let mut rng = Rng::new(case_seed);
        ArgsTrace { image: rng.usize_below(images().len()), use_other_version_args: rng.chance(1, 4), skew: *rng.pick(&[-1i32, 0, 1, 2, 0xFFFF, -0xFFFF, 7]), cut_permille: *rng.pick(&[1000u32, 1000, 999, 500, 10]) }
    }
    fn execute(&self, t: &mut ArgsTrace, stats: &mut Stats) -> Verdict {
        use read_fonts::tables::{hdmx::Hdmx, hmtx::Hmtx, loca::Loca, vmtx::Vmtx};
        use read_fonts::FontReadWithArgs;
        let img = &images()[t.image];
        let Ok(fr) = FontRef::new(img.data) else { return Verdict::Pass { digest: 0, sig: t.image as u64, nontrivial: false } };
        let argsrc = if t.use_other_version_args { img.other.and_then(|o| FontRef::new(o).ok()).unwrap_or_else(|| fr.clone()) } else { fr.clone() };
        let ng = (argsrc.maxp().map(|m| m.num_glyphs()).unwrap_or(0) as i64 + t.skew as i64).clamp(0, 0xFFFF) as u16;
        let nh = (argsrc.hhea().map(|m| m.number_of_h_metrics()).unwrap_or(0) as i64 + t.skew as i64).clamp(0, 0xFFFF) as u16;
        let nv = (argsrc.vhea().map(|m| m.number_of_long_ver_metrics()).unwrap_or(0) as i64 + t.skew as i64).clamp(0, 0xFFFF) as u16;
        let long = argsrc.head().map(|h| h.index_to_loc_format() == 1).unwrap_or(false) ^ (t.skew % 2 != 0);
        let mut d = Digest::new();
        let mut any = false;
        let cut = |data: FontData| -> Vec<u8> {
            let b = data.as_bytes();
            b[..(b.len() as u64 * t.cut_permille as u64 / 1000) as usize].to_vec()
        };
        let mut bud = Budget { nodes: 0, max_nodes: 200_000, exhausted: false };
        if let Some(data) = fr.table_data(Tag::new(b"loca")) {
            any = true;
            let bytes = cut(data);
            stats.bump("fault.args.loca_format_skewed");
            match Loca::read(FontData::new(&bytes), long) {
                Ok(l) => {
                    d.u64(l.len() as u64);
                    d.u64(l.all_offsets_are_ascending() as u64);
                    walk_table(&l, &mut d, &mut bud, 0);
                    if let Ok(glyf) = fr.glyf() {
                        for g in 0..(ng as u32).min(64) {
                            d.u64(l.get_glyf(GlyphId::new(g), &glyf).map(|x| x.is_some() as u64).unwrap_or(2));
                        }
                    }
                }
                Err(e) => d.u64(err_code(&e)),
            }
        }
        if let Some(data) = fr.table_data(Tag::new(b"hmtx")) {
            any = true;
            let bytes = cut(data);
            stats.bump("fault.args.metric_counts_skewed");
            match Hmtx::read_with_args(FontData::new(&bytes), &(nh, ng)) {
                Ok(h) => {
                    walk_table(&h, &mut d, &mut bud, 0);
                    for g in [0u32, 1, nh as u32, ng as u32, 0xFFFF] {
                        d.u64(h.advance(GlyphId::new(g)).map(|x| x as u64 + 1).unwrap_or(0));
                        d.u64(h.side_bearing(GlyphId::new(g)).map(|x| x as u64 + 1).unwrap_or(0));
                    }
                }
                Err(e) => d.u64(err_code(&e)),
            }
        }
        if let Some(data) = fr.table_data(Tag::new(b"vmtx")) {
            any = true;
            let bytes = cut(data);
            match Vmtx::read_with_args(FontData::new(&bytes), &(nv, ng)) {
                Ok(h) => {
                    walk_table(&h, &mut d, &mut bud, 0);
                    for g in [0u32, 1, nv as u32, ng as u32] {
                        d.u64(h.advance(GlyphId::new(g)).map(|x| x as u64 + 1).unwrap_or(0));
                    }
                }
                Err(e) => d.u64(err_code(&e)),
            }
        }
        if let Some(data) = fr.table_data(Tag::new(b"hdmx")) {
            any = true;
            let bytes = cut(data);
            match Hdmx::read_with_args(FontData::new(&bytes), &ng) {
                Ok(h) => {
                    walk_table(&h, &mut d, &mut bud, 0);
                    for s in [8u8, 12, 255] {
                        d.u64(h.record_for_size(s).is_some() as u64);
                    }
                }
                Err(e) => d.u64(err_code(&e)),
            }
        }
        stats.bump("oracle.C01.total_read");
        Verdict::Pass { digest: d.finish(), sig: fnv(serde_json::to_string(&*t).unwrap_or_default().as_bytes()), nontrivial: any }
    }
}

// ------------------------------------------------------------------ every bit of the outline-bearing tables

#[derive(Clone, Debug, Serialize, Deserialize)]
pub struct OutlineEnumTrace {
    pub image: usize,
    pub table: [u8; 4],
    /// byte range of the table whose every bit is flipped in turn
    pub start: u32,
    pub len: u32,
    #[serde(default)]
    pub only_bit: Option<u32>,
    /// restrict to one stuck word (byte offset, value) when replaying
    #[serde(default)]
    pub only_word: Option<(u32, u16)>,
}

pub struct OutlineBitEnum;

const OUTLINE_TABLES: [&[u8; 4]; 9] = [b"glyf", b"CFF ", b"CFF2", b"gvar", b"hmtx", b"cvt ", b"fpgm", b"prep", b"HVAR"];
const CHUNK: usize = 192;

/// (image, table, chunk start) for every chunk of the first `limit` bytes of every outline-bearing table
fn outline_chunks(limit: usize) -> Vec<(usize, [u8; 4], u32)> {
    let mut v = Vec::new();
    for (i, img) in images().iter().enumerate() {
        for (t, _, l) in &img.tables {
            if OUTLINE_TABLES.iter().any(|o| Tag::new(o) == *t) {
                let mut s = 0;
                while s < (*l).min(limit) {
                    v.push((i, t.to_be_bytes(), s as u32));
                    s += chunk_len(img.extended);
                }
            }
        }
    }
    // breadth first: a prefix of the list covers the early bytes of every table before any table's later bytes;
    // the quick tier (first group) takes 4 KiB of the purpose-built corpus and 768 bytes of the real-world fonts
    v.sort_by_key(|c| (!in_quick_group(c), c.2, c.0, c.1));
    v
}

fn in_quick_group(c: &(usize, [u8; 4], u32)) -> bool {
    if images()[c.0].extended {
        c.2 < 384
    } else {
        c.2 < 4096
    }
}

/// Real-world fonts cost far more per draw (real programs, many scripts): smaller chunks per case.
fn chunk_len(extended: bool) -> usize {
    if extended {
        64
    } else {
        CHUNK
    }
}

/// Draws the glyphs a fault at `offset` of `table` lands in (or a sample) under the configurations
/// that exercise scaling, both hinting engines and variation.
fn focused_draws(bytes: &[u8], orig: &FontRef, table: Tag, offset: usize, light: bool, stats: &mut Stats) -> u64 {
    use skrifa::instance::{LocationRef, Size};
    use skrifa::outline::{DrawSettings, HintingInstance, HintingOptions};
    use skrifa::MetadataProvider;
    let mut d = Digest::new();
    let Ok(font) = FontRef::new(bytes) else { return 1 };
    let n = orig.maxp().map(|m| m.num_glyphs() as u32).unwrap_or(0);
    let mut gids: Vec<u32> = Vec::new();
    if table == Tag::new(b"glyf") {
        if let Ok(loca) = orig.loca(None) {
            for g in 0..n {
                if let (Some(a), Some(b)) = (loca.get_raw(g as usize), loca.get_raw(g as usize + 1)) {
                    if (a as usize) <= offset && offset < b as usize {
                        gids.push(g);
                    }
                }
            }
            // composites referencing it are affected too: draw a few neighbours
            if let Some(g) = gids.first().copied() {
                for k in 1..=3 {
                    if g + k < n {
                        gids.push(g + k);
                    }
                }
            }
        }
    }
    if gids.is_empty() {
        gids = if n <= 14 { (0..n).collect() } else { (0..14).map(|i| (i * (n / 14).max(1)) % n).collect() };
    }
    let outlines = font.outline_glyphs();
    let axes = font.axes();
    let loc = axes.location([("wght", 650.0f32), ("wdth", 80.0), ("opsz", 20.0)]);
    let zero: Vec<skrifa::instance::NormalizedCoord> = vec![];
    let both: [&[skrifa::instance::NormalizedCoord]; 2] = [&zero, loc.coords()];
    // a second location only where there are axes
    let locs: &[&[skrifa::instance::NormalizedCoord]] = if axes.is_empty() { &both[..1] } else { &both[..] };
    let sizes = [Size::new(16.0), Size::unscaled(), Size::new(1000.0)];
    let mut insts: Vec<HintingInstance> = Vec::new();
    for coords in locs.iter().copied() {
        for eng in [0u8, 1] {
            // real-world fonts: two interpreter targets and one auto-hinter target
            let tgts: &[u8] = if !light { &[0, 1, 2] } else if eng == 0 { &[0, 1] } else { &[1] };
            for tgt in tgts.iter().copied() {
                if let Ok(i) = HintingInstance::new(&outlines, sizes[0], LocationRef::new(coords), HintingOptions { engine: crate::engines::drawhist::engine_of(eng), target: crate::engines::drawhist::target_of(tgt) }) {
                    insts.push(i);
                }
            }
        }
    }
    if !light {
        if let Ok(i) = HintingInstance::new(&outlines, sizes[2], LocationRef::new(&zero), HintingOptions { engine: crate::engines::drawhist::engine_of(1), target: crate::engines::drawhist::target_of(1) }) {
            insts.push(i);
        }
    }
    // one interpreter instance at a size where scaled coordinates approach the 26.6 range: products and sums of
    // font-controlled values then reach the integer limits (the overflow clause of C20)
    if let Ok(i) = HintingInstance::new(&outlines, Size::new(150_000.0), LocationRef::new(&zero), HintingOptions { engine: crate::engines::drawhist::engine_of(0), target: crate::engines::drawhist::target_of(1) }) {
        insts.push(i);
    }
    for g in gids {
        let Some(glyph) = outlines.get(GlyphId::new(g)) else { continue };
        for coords in locs.iter().copied() {
            for s in sizes {
                let mut rec = Recording::default();
                d.u64(glyph.draw(DrawSettings::unhinted(s, LocationRef::new(coords)), &mut rec).is_ok() as u64 ^ ((rec.cmds.len() as u64) << 1));
                stats.bump("sim.draws");
            }
            let mut rec = Recording::default();
            d.u64(glyph.draw(DrawSettings::unhinted(sizes[0], LocationRef::new(coords)).with_path_style(skrifa::outline::pen::PathStyle::HarfBuzz), &mut rec).is_ok() as u64);
        }
        for i in &insts {
            let mut rec = Recording::default();
            d.u64(glyph.draw(DrawSettings::hinted(i, false), &mut rec).is_ok() as u64 ^ ((rec.cmds.len() as u64) << 1));
            stats.bump("sim.draws");
        }
        if let Some(i) = insts.first() {
            let mut rec = Recording::default();
            d.u64(glyph.draw(DrawSettings::hinted(i, true), &mut rec).is_ok() as u64);
        }
        for coords in locs.iter().copied() {
            let gm = font.glyph_metrics(sizes[0], LocationRef::new(coords));
            d.u64(gm.advance_width(GlyphId::new(g)).map(|x| x.to_bits() as u64).unwrap_or(1));
            d.u64(gm.bounds(GlyphId::new(g)).map(|b| b.x_max.to_bits() as u64).unwrap_or(1));
        }
    }
    d.finish()
}

impl Engine for OutlineBitEnum {
    type Trace = OutlineEnumTrace;
    fn name(&self) -> &'static str {
        "outline_table_bit_flips_enumerated"
    }
    fn rule(&self) -> &'static str {
        "case = one 192-byte chunk of an outline-bearing table (glyf, CFF, CFF2, gvar, hmtx, cvt, fpgm, prep, HVAR) of a corpus font, chosen by case index so that consecutive indices cover the first 4 KiB (quick) / 64 KiB (thorough) of every such table; inside the case EVERY single bit of the chunk is flipped in turn, the sfnt re-assembled, and the glyphs the flip landed in (via the original loca; otherwise a spread of glyphs) are drawn unhinted at three sizes and two locations, hinted by interpreter and auto-hinter for three targets, plus their metrics; judged by totality; non-trivial iff the chunk is non-empty"
    }
    fn components(&self) -> &'static str {
        "real: skrifa outline drawing (glyf/CFF/CFF2 scaling, variations, interpreter, auto-hinter), glyph metrics; stub: bit-flip enumerator, recording pen"
    }
    fn generate(&self, case_seed: u64) -> OutlineEnumTrace {
        self.generate_indexed(case_seed, case_seed)
    }
    fn generate_indexed(&self, index: u64, _case_seed: u64) -> OutlineEnumTrace {
        static QUICK: OnceLock<Vec<(usize, [u8; 4], u32)>> = OnceLock::new();
        static DEEP: OnceLock<Vec<(usize, [u8; 4], u32)>> = OnceLock::new();
        let q = QUICK.get_or_init(|| outline_chunks(4096));
        let (image, table, start) = if (index as usize) < q.len() {
            q[index as usize]
        } else {
            let dd = DEEP.get_or_init(|| outline_chunks(65536).into_iter().filter(|c| c.2 >= 4096).collect());
            if dd.is_empty() {
                q[index as usize % q.len()]
            } else {
                dd[(index as usize - q.len()) % dd.len()]
            }
        };
        OutlineEnumTrace { image, table, start, len: chunk_len(images()[image].extended) as u32, only_bit: None, only_word: None }
    }
    fn execute(&self, t: &mut OutlineEnumTrace, stats: &mut Stats) -> Verdict {
        let img = &images()[t.image];
        let Ok(fr) = FontRef::new(img.data) else { return Verdict::Inconclusive("corpus image does not open".into()) };
        let tag = Tag::new(&t.table);
        let Some(payload) = fr.table_data(tag) else { return Verdict::Inconclusive("table missing".into()) };
        let payload = payload.as_bytes().to_vec();
        let start = t.start as usize;
        let end = (start + t.len as usize).min(payload.len());
        let bits: Vec<u32> = match (t.only_bit, t.only_word) {
            (Some(b), _) => vec![b],
            (None, Some(_)) => vec![],
            (None, None) => ((start * 8) as u32..(end * 8) as u32).collect(),
        };
        // every aligned 16-bit word of the chunk stuck at a boundary value (what a single bit flip cannot make
        // of an arbitrary field: all ones, the sign boundary)
        let words: Vec<(u32, u16)> = match (t.only_bit, t.only_word) {
            (_, Some(w)) => vec![w],
            (Some(_), None) => vec![],
            (None, None) => ((start + start % 2)..end.saturating_sub(1)).step_by(2).flat_map(|at| [0xFFFFu16, 0x8000, 0x7FFF].into_iter().map(move |v| (at as u32, v))).collect(),
        };
        let mut d = Digest::new();
        for (at, v) in words {
            let mut p = payload.clone();
            let i = at as usize;
            if i + 2 > p.len() || p[i..i + 2] == v.to_be_bytes() {
                continue;
            }
            p[i..i + 2].copy_from_slice(&v.to_be_bytes());
            stats.bump("fault.image.table.word_stuck_at_boundary_value");
            let mut b = write_fonts::FontBuilder::new();
            b.add_raw(tag, p);
            b.copy_missing_tables(fr.clone());
            let image = b.build();
            t.only_word = Some((at, v));
            d.u64(focused_draws(&image, &fr, tag, i, img.extended, stats));
            stats.bump("oracle.C02.total_sweep");
        }
        t.only_word = None;
        for bit in bits {
            let mut p = payload.clone();
            let i = bit as usize / 8;
            if i >= p.len() {
                continue;
            }
            p[i] ^= 1 << (bit % 8);
            stats.bump("fault.image.table.bit_flip");
            let mut b = write_fonts::FontBuilder::new();
            b.add_raw(tag, p);
            b.copy_missing_tables(fr.clone());
            let image = b.build();
            t.only_bit = Some(bit);
            d.u64(focused_draws(&image, &fr, tag, i, img.extended, stats));
            stats.bump("oracle.C02.total_sweep");
        }
        t.only_bit = None;
        Verdict::Pass { digest: d.finish(), sig: fnv(&[t.image as u8, t.table[0], t.table[1], t.table[2], t.table[3], (t.start >> 8) as u8, t.start as u8]), nontrivial: end > start }
    }
}

pub fn outline_chunk_count_quick() -> u64 {
    outline_chunks(4096).iter().filter(|c| in_quick_group(c)).count() as u64
}
