pub mod hashseed;
pub mod minimize;
pub mod panics;
pub mod report;
pub mod rng;
pub mod runner;

use serde::{de::DeserializeOwned, Serialize};
use serde_json::Value;
use std::collections::{BTreeMap, HashSet};

/// Per-worker accumulation of what the runs actually did.
#[derive(Default)]
pub struct Stats {
    pub counters: BTreeMap<&'static str, u64>,
    pub dyn_counters: BTreeMap<String, u64>,
    /// case signatures (distinct cases)
    pub sigs: HashSet<u64>,
    /// signatures of cases that were non-trivial by the scenario's rule
    pub nontrivial: HashSet<u64>,
    /// distinct states / interleavings by the scenario's stated measure
    pub states: HashSet<u64>,
    pub samples: Vec<Value>,
    pub cases: u64,
    pub inconclusive: u64,
    pub sim_ticks: u64,
}

impl Stats {
    #[inline]
    pub fn bump(&mut self, key: &'static str) {
        *self.counters.entry(key).or_insert(0) += 1;
    }
    #[inline]
    pub fn add(&mut self, key: &'static str, n: u64) {
        *self.counters.entry(key).or_insert(0) += n;
    }
    pub fn bump_dyn(&mut self, key: String) {
        *self.dyn_counters.entry(key).or_insert(0) += 1;
    }
    #[inline]
    pub fn state(&mut self, h: u64) {
        if self.states.len() < 4_000_000 {
            self.states.insert(h);
        }
    }
}

#[derive(Clone, Debug, Serialize, serde::Deserialize)]
pub struct Violation {
    pub property: String,
    /// stable oracle identifier, e.g. "C18.c.bookkeeping_unchanged" or "panic"
    pub oracle: String,
    pub detail: String,
    /// for panics: file (repo-relative) of the panic site, else empty
    #[serde(default)]
    pub site_file: String,
    #[serde(default)]
    pub site_line: u32,
    #[serde(default)]
    pub message: String,
}

impl Violation {
    pub fn new(property: &str, oracle: &str, detail: impl Into<String>) -> Self {
        Violation {
            property: property.to_string(),
            oracle: oracle.to_string(),
            detail: detail.into(),
            site_file: String::new(),
            site_line: 0,
            message: String::new(),
        }
    }
    /// Two violations are the same class if property, oracle and panic site file+message class agree.
    pub fn class_key(&self) -> String {
        format!("{}|{}|{}|{}", self.property, self.oracle, self.site_file, msg_class(&self.message))
    }
}

pub fn msg_class(m: &str) -> String {
    // strip digits so that "index 7 out of range for slice of length 3" compares by shape
    let s: String = m.chars().filter(|c| !c.is_ascii_digit()).collect();
    s.chars().take(60).collect()
}

pub enum Verdict {
    Pass {
        /// digest of everything observed (determinism selftest compares these)
        digest: u64,
        /// identity of the case for distinct counting
        sig: u64,
        /// non-trivial by the scenario's rule
        nontrivial: bool,
    },
    Fail(Violation),
    /// the harness could not judge (budget exhausted etc.)
    Inconclusive(String),
}

/// A typed engine. `generate` is a pure function of the seed; `execute` is a
/// pure function of the trace and the code under test (it may append recorded
/// schedule choices to the trace).
pub trait Engine: Send + Sync + 'static {
    type Trace: Serialize + DeserializeOwned + Clone + Send + 'static;
    fn name(&self) -> &'static str;
    /// One-off preparation in each process (load corpus, reference digests).
    fn generate(&self, case_seed: u64) -> Self::Trace;
    /// Engines that enumerate a finite family by case index override this.
    fn generate_indexed(&self, _index: u64, case_seed: u64) -> Self::Trace {
        self.generate(case_seed)
    }
    fn execute(&self, trace: &mut Self::Trace, stats: &mut Stats) -> Verdict;
    /// Candidates strictly simpler than `trace` (fewer steps / smaller arguments).
    fn shrink(&self, _trace: &Self::Trace) -> Vec<Self::Trace> {
        Vec::new()
    }
    /// Rule text for the evidence file.
    fn rule(&self) -> &'static str;
    /// Which components ran real code and which ran a stub.
    fn components(&self) -> &'static str;
}

/// Type-erased engine used by the runner.
pub trait Scenario: Send + Sync {
    fn name(&self) -> &'static str;
    fn rule(&self) -> &'static str;
    fn components(&self) -> &'static str;
    /// Runs one case from its seed. Returns the verdict and, on failure or when
    /// `want_trace`, the (completed) trace.
    fn run_seed(&self, index: u64, case_seed: u64, stats: &mut Stats, want_trace: bool) -> (Verdict, Option<Value>);
    fn run_trace(&self, trace: &Value, stats: &mut Stats) -> (Verdict, Value);
    fn shrink(&self, trace: &Value) -> Vec<Value>;
    fn generate_value(&self, index: u64, case_seed: u64) -> Value;
}

pub struct Erased<E: Engine>(pub E);

impl<E: Engine> Scenario for Erased<E> {
    fn name(&self) -> &'static str {
        self.0.name()
    }
    fn rule(&self) -> &'static str {
        self.0.rule()
    }
    fn components(&self) -> &'static str {
        self.0.components()
    }
    fn generate_value(&self, index: u64, case_seed: u64) -> Value {
        serde_json::to_value(self.0.generate_indexed(index, case_seed)).unwrap_or(Value::Null)
    }
    fn run_seed(&self, index: u64, case_seed: u64, stats: &mut Stats, want_trace: bool) -> (Verdict, Option<Value>) {
        let mut t = self.0.generate_indexed(index, case_seed);
        let v = guarded(|| self.0.execute(&mut t, stats));
        let need = want_trace || matches!(v, Verdict::Fail(_));
        let tv = if need { Some(serde_json::to_value(&t).unwrap_or(Value::Null)) } else { None };
        (v, tv)
    }
    fn run_trace(&self, trace: &Value, stats: &mut Stats) -> (Verdict, Value) {
        let mut t: E::Trace = match serde_json::from_value(trace.clone()) {
            Ok(t) => t,
            Err(e) => return (Verdict::Inconclusive(format!("trace does not parse: {e}")), trace.clone()),
        };
        let v = guarded(|| self.0.execute(&mut t, stats));
        (v, serde_json::to_value(&t).unwrap_or(Value::Null))
    }
    fn shrink(&self, trace: &Value) -> Vec<Value> {
        let t: E::Trace = match serde_json::from_value(trace.clone()) {
            Ok(t) => t,
            Err(_) => return vec![],
        };
        self.0
            .shrink(&t)
            .into_iter()
            .filter_map(|c| serde_json::to_value(&c).ok())
            .collect()
    }
}

/// Runs `f`, converting a panic into a verdict by class.
pub fn guarded(f: impl FnOnce() -> Verdict) -> Verdict {
    panics::reset();
    let r = std::panic::catch_unwind(std::panic::AssertUnwindSafe(f));
    match r {
        Ok(v) => {
            // a panic that was caught inside (e.g. by shuttle) and not reported is still recorded
            v
        }
        Err(_) => panic_verdict(),
    }
}

/// Turns the recorded panic into a verdict. Property is filled in by class:
/// overflow => C20, plain => "PANIC" placeholder that engines/drivers map to C01/C02.
pub fn panic_verdict() -> Verdict {
    let rec = panics::take().unwrap_or_default();
    match rec.class() {
        panics::PanicClass::Harness => Verdict::Inconclusive(format!("HARNESS-PANIC {}:{} {}", rec.file, rec.line, rec.msg)),
        panics::PanicClass::Overflow => {
            let mut v = Violation::new("C20", "panic.overflow", format!("{} at {}", rec.msg, rec.site()));
            v.site_file = rec.file_rel();
            v.site_line = rec.line;
            v.message = rec.msg.clone();
            Verdict::Fail(v)
        }
        panics::PanicClass::Plain => {
            let mut v = Violation::new("PANIC", "panic.plain", format!("{} at {}", rec.msg, rec.site()));
            v.site_file = rec.file_rel();
            v.site_line = rec.line;
            v.message = rec.msg.clone();
            Verdict::Fail(v)
        }
    }
}

/// Generic ddmin helper on a vector of steps: candidates with chunks removed.
pub fn drop_chunks<T: Clone>(steps: &[T]) -> Vec<Vec<T>> {
    let n = steps.len();
    let mut out = Vec::new();
    if n == 0 {
        return out;
    }
    let mut chunk = n / 2;
    while chunk >= 1 {
        let mut start = 0;
        while start < n {
            let end = (start + chunk).min(n);
            let mut v = Vec::with_capacity(n - (end - start));
            v.extend_from_slice(&steps[..start]);
            v.extend_from_slice(&steps[end..]);
            out.push(v);
            start += chunk;
        }
        if chunk == 1 {
            break;
        }
        chunk /= 2;
    }
    out
}

/// Directory this machinery lives in (the `check` script exports it; /verif unless a scratch copy runs).
pub fn verif_root() -> String {
    match std::env::var("VERIF_ROOT") {
        Ok(d) if !d.is_empty() => d,
        _ => "/verif".to_string(),
    }
}

/// Working tree of googlefonts/fontations the binary was built against (only the seeded-change
/// regression, which builds against a scratch worktree, sets VERIF_REPO).
pub fn repo_root() -> String {
    match std::env::var("VERIF_REPO") {
        Ok(d) if !d.is_empty() => d,
        _ => "/repo".to_string(),
    }
}
