//! The IFT deployment simulator: real client selection/application code, simulated
//! server, network, disk and decoder, and the oracles for C18 / C19 / C02 / C06.

use super::world::*;
use crate::core::rng::{fnv, mix, Digest, Rng};
use crate::core::{Stats, Violation};
use incremental_font_transfer::patch_group::{PatchGroup, UriStatus};
use incremental_font_transfer::patchmap::{intersecting_patches, DesignSpace, FeatureSet, PatchFormat, SubsetDefinition};
use read_fonts::collections::{IntSet, RangeSet};
use read_fonts::types::{Fixed, Tag};
use read_fonts::{FontRef, TableProvider};
use serde::{Deserialize, Serialize};
use shared_brotli_patch_decoder::decode_error::DecodeError;
use shared_brotli_patch_decoder::{BuiltInBrotliDecoder, SharedBrotliDecoder};
use std::cell::Cell;
use std::collections::{BTreeMap, BTreeSet, HashMap};

// ------------------------------------------------------------------ seams

/// Seam S3: the real C brotli decoder behind a fault-injecting wrapper.
pub struct SimDecoder {
    pub calls: Cell<u32>,
    /// fail the k-th call (0-based) with this error kind
    pub fail_at: Cell<Option<(u32, u8)>>,
    pub fired: Cell<bool>,
}

impl SimDecoder {
    pub fn new() -> Self {
        SimDecoder { calls: Cell::new(0), fail_at: Cell::new(None), fired: Cell::new(false) }
    }
    pub fn reset(&self, fail_at: Option<(u32, u8)>) {
        self.calls.set(0);
        self.fail_at.set(fail_at);
        self.fired.set(false);
    }
}

pub fn decode_error_kind(k: u8) -> DecodeError {
    match k % 6 {
        0 => DecodeError::InitFailure,
        1 => DecodeError::InvalidStream,
        2 => DecodeError::InvalidDictionary,
        3 => DecodeError::MaxSizeExceeded,
        4 => DecodeError::ExcessInputData,
        _ => DecodeError::IoError(std::io::ErrorKind::Other),
    }
}

impl SharedBrotliDecoder for SimDecoder {
    fn decode(&self, encoded: &[u8], dict: Option<&[u8]>, max: usize) -> Result<Vec<u8>, DecodeError> {
        let n = self.calls.get();
        self.calls.set(n + 1);
        if let Some((k, kind)) = self.fail_at.get() {
            if k == n {
                self.fired.set(true);
                return Err(decode_error_kind(kind));
            }
        }
        if let Some(r) = super::encode::sim_decode(encoded, dict, max) {
            return r.map_err(decode_error_kind);
        }
        BuiltInBrotliDecoder.decode(encoded, dict, max)
    }
}

pub fn real_def(d: &Def) -> SubsetDefinition {
    let mut cps = IntSet::<u32>::empty();
    for c in &d.cps {
        cps.insert(*c);
    }
    if d.inverted {
        cps.invert();
    }
    let features = match &d.features {
        None => FeatureSet::All,
        Some(fs) => FeatureSet::Set(fs.iter().map(|t| Tag::new(t)).collect()),
    };
    let design = match &d.design {
        None => DesignSpace::All,
        Some(ds) => {
            let mut m: HashMap<Tag, RangeSet<Fixed>> = HashMap::new();
            for (t, s, e) in ds {
                m.entry(Tag::new(t)).or_default().insert(Fixed::from_bits(*s)..=Fixed::from_bits(*e));
            }
            DesignSpace::Ranges(m)
        }
    };
    SubsetDefinition::new(cps, features, design)
}

fn fmt_num(f: PatchFormat) -> u8 {
    match f {
        PatchFormat::TableKeyed { fully_invalidating: true } => 1,
        PatchFormat::TableKeyed { fully_invalidating: false } => 2,
        PatchFormat::GlyphKeyed => 3,
    }
}

// ------------------------------------------------------------------ faults

#[derive(Clone, Debug, Serialize, Deserialize, PartialEq)]
pub enum Fault {
    /// response to the f-th fetch of round r never arrives (client times out and retries)
    NetDrop { round: u32, fetch: u32 },
    /// server answers 404 once
    Server404 { round: u32, fetch: u32 },
    /// response delivered twice (second copy after the round's apply)
    NetDup { round: u32, fetch: u32 },
    /// extra latency on one response: reorders arrivals
    NetDelay { round: u32, fetch: u32, ticks: u32 },
    /// response cut short
    NetTruncate { round: u32, fetch: u32, keep_permille: u32 },
    /// header corruption with a known consequence: 0 = format tag, 1 = compat id, 2 = max length shrunk
    NetCorruptHeader { round: u32, fetch: u32, which: u8 },
    /// single bit flip anywhere in the body
    NetFlipBit { round: u32, fetch: u32, bit: u32 },
    /// the response is the patch of another URI of the same world (stale cache / wrong version)
    NetStale { round: u32, fetch: u32, pick: u32 },
    /// decoder fails its k-th call in round r
    DecoderFail { round: u32, call: u32, kind: u8 },
    /// client crashes in round r: 0 = after fetch before apply, 1 = after apply before persist, 2 = after persist
    Crash { round: u32, point: u8 },
    /// the persist of round r is in place and torn at crash (prefix new, suffix old); implies a crash after it
    TornPersist { round: u32, cut_permille: u32 },
    /// the persist of round r is acknowledged but lost at the crash that follows
    LostPersist { round: u32 },
}

impl Fault {
    fn round(&self) -> u32 {
        match self {
            Fault::NetDrop { round, .. }
            | Fault::Server404 { round, .. }
            | Fault::NetDup { round, .. }
            | Fault::NetDelay { round, .. }
            | Fault::NetTruncate { round, .. }
            | Fault::NetCorruptHeader { round, .. }
            | Fault::NetFlipBit { round, .. }
            | Fault::NetStale { round, .. }
            | Fault::DecoderFail { round, .. }
            | Fault::Crash { round, .. }
            | Fault::TornPersist { round, .. }
            | Fault::LostPersist { round } => *round,
        }
    }
}

// ------------------------------------------------------------------ reading back client output

pub struct ParsedFont {
    pub tables: BTreeMap<Tag4, Vec<u8>>,
}

pub fn parse_font(bytes: &[u8]) -> Option<ParsedFont> {
    let f = FontRef::new(bytes).ok()?;
    let mut tables = BTreeMap::new();
    for r in f.table_directory.table_records() {
        let t = r.tag();
        let d = f.table_data(t)?;
        tables.insert(t.to_be_bytes(), d.as_bytes().to_vec());
    }
    Some(ParsedFont { tables })
}

fn per_glyph(offsets: &[u32], data: &[u8]) -> Result<Vec<Vec<u8>>, String> {
    let mut out = Vec::new();
    for w in offsets.windows(2) {
        if w[0] > w[1] {
            return Err(format!("offsets not ascending: {} > {}", w[0], w[1]));
        }
        let s = data.get(w[0] as usize..w[1] as usize).ok_or_else(|| format!("offset range {}..{} outside data of {}", w[0], w[1], data.len()))?;
        out.push(s.to_vec());
    }
    Ok(out)
}

fn loca_offsets(loca: &[u8], long: bool) -> Vec<u32> {
    if long {
        loca.chunks_exact(4).map(|c| u32::from_be_bytes([c[0], c[1], c[2], c[3]])).collect()
    } else {
        loca.chunks_exact(2).map(|c| u16::from_be_bytes([c[0], c[1]]) as u32 * 2).collect()
    }
}

fn gvar_split(gvar: &[u8]) -> Result<(bool, Vec<Vec<u8>>), String> {
    if gvar.len() < 20 {
        return Err("gvar too short".into());
    }
    let n = u16::from_be_bytes([gvar[12], gvar[13]]) as usize;
    let long = gvar[15] & 1 == 1;
    let arr = u32::from_be_bytes([gvar[16], gvar[17], gvar[18], gvar[19]]) as usize;
    let w = if long { 4 } else { 2 };
    let offs_bytes = gvar.get(20..20 + (n + 1) * w).ok_or("gvar offsets truncated")?;
    let offs = loca_offsets(offs_bytes, long);
    let data = gvar.get(arr..).ok_or("gvar data offset out of range")?;
    Ok((long, per_glyph(&offs, data)?))
}

/// data delimited by the offsets must be the expected bytes followed only by zero padding
fn matches_padded(got: &[u8], want: &[u8], max_pad: usize) -> bool {
    got.len() >= want.len() && got.len() - want.len() <= max_pad && got.starts_with(want) && got[want.len()..].iter().all(|b| *b == 0)
}

/// Compares a font the client produced with the model state. `alts` lists, for glyphs supplied by
/// disagreeing patches, every acceptable variant.
pub fn compare_font(w: &World, font: &[u8], m: &ModelFont, alts: &BTreeMap<(Tag4, u32), Vec<Vec<u8>>>, untouched_from: Option<&ParsedFont>) -> Result<(), (String, String)> {
    let p = parse_font(font).ok_or(("C18.output_opens".to_string(), "client output does not open as a font".to_string()))?;
    // expected tag set
    let mut want_tags: BTreeSet<Tag4> = BTreeSet::new();
    for t in [HEAD, *b"maxp", *b"cmap"] {
        want_tags.insert(t);
    }
    if w.carrier == 0 {
        want_tags.insert(LOCA);
        want_tags.insert(GLYF);
    } else {
        want_tags.insert(w.outline_tag());
    }
    if m.gvar.is_some() {
        want_tags.insert(GVAR);
    }
    if m.maps[0].is_some() {
        want_tags.insert(IFT);
    }
    if m.maps[1].is_some() {
        want_tags.insert(IFTX);
    }
    for t in m.other.keys() {
        want_tags.insert(*t);
    }
    let got_tags: BTreeSet<Tag4> = p.tables.keys().copied().collect();
    if got_tags != want_tags {
        let f = |s: &BTreeSet<Tag4>| s.iter().map(tag_str).collect::<Vec<_>>().join(",");
        return Err(("C18.table_set".into(), format!("tables present [{}], expected [{}]", f(&got_tags), f(&want_tags))));
    }
    for (t, d) in &m.other {
        if &p.tables[t] != d {
            return Err(("C18.a.table_bytes".into(), format!("table {} differs from the decoded replacement/diff result or was changed ({} vs {} bytes)", tag_str(t), p.tables[t].len(), d.len())));
        }
    }
    for slot in 0..2 {
        if let Some(ms) = &m.maps[slot] {
            let t = if slot == 0 { IFT } else { IFTX };
            let want = w.map_table_bytes(ms.version, &ms.applied);
            if p.tables[&t] != want {
                let got = &p.tables[&t];
                let diffs: Vec<usize> = (0..got.len().min(want.len())).filter(|i| got[*i] != want[*i]).take(4).collect();
                return Err(("C18.b.mapping_bits".into(), format!("mapping table {} is not the expected table with exactly the applied entries' bits set (len {} vs {}, first differing bytes {:?})", tag_str(&t), got.len(), want.len(), diffs)));
            }
        }
    }
    // untouched fixed tables
    if let Some(prev) = untouched_from {
        for t in [HEAD, *b"maxp", *b"cmap"] {
            let (a, b) = (&prev.tables[&t], &p.tables[&t]);
            let same = if t == HEAD { a.len() == b.len() && a[..8] == b[..8] && a[12..] == b[12..] } else { a == b };
            if !same {
                return Err(("C18.other_tables_unchanged".into(), format!("table {} changed although no patch touched it", tag_str(&t))));
            }
        }
    }
    if w.carrier != 0 {
        // CFF / CFF2: everything before the charstrings INDEX unchanged; INDEX with the expected offSize
        let tag = w.outline_tag();
        let t = &p.tables[&tag];
        let prefix = cff_prefix(w.carrier);
        if !t.starts_with(&prefix) {
            return Err(("C18.other_tables_unchanged".into(), format!("bytes of {} before the charstrings INDEX changed", tag_str(&tag))));
        }
        let rest = &t[prefix.len()..];
        let cw = if w.carrier == 1 { 2 } else { 4 };
        if rest.len() < cw + 1 {
            return Err(("C18.b.offset_width".into(), "charstrings INDEX truncated".into()));
        }
        let count = if cw == 2 { u16::from_be_bytes([rest[0], rest[1]]) as usize } else { u32::from_be_bytes([rest[0], rest[1], rest[2], rest[3]]) as usize };
        if count != w.n_glyphs as usize {
            return Err(("C18.b.offset_width".into(), format!("charstrings INDEX holds {count} glyphs, expected {}", w.n_glyphs)));
        }
        let osz = rest[cw] as usize;
        if osz != m.cff_off_size as usize {
            return Err(("C18.b.offset_width".into(), format!("charstrings offSize is {osz} but the model expects {} (widen only when the data no longer fits)", m.cff_off_size)));
        }
        let offs_bytes = rest.get(cw + 1..cw + 1 + (count + 1) * osz).ok_or(("C18.b.offsets_ascending".to_string(), "charstrings offsets truncated".to_string()))?;
        let mut offs: Vec<u32> = Vec::new();
        for c in offs_bytes.chunks_exact(osz) {
            let mut v = 0u32;
            for b in c {
                v = (v << 8) | *b as u32;
            }
            if v == 0 {
                return Err(("C18.b.offsets_ascending".into(), "charstrings offset 0 (offsets carry a bias of 1)".into()));
            }
            offs.push(v - 1);
        }
        let data = &rest[cw + 1 + (count + 1) * osz..];
        if offs.last().copied().unwrap_or(0) as usize != data.len() {
            return Err(("C18.b.offsets_ascending".into(), format!("last charstrings offset {} but {} bytes of data", offs.last().copied().unwrap_or(0), data.len())));
        }
        let glyphs = per_glyph(&offs, data).map_err(|e| ("C18.b.offsets_ascending".to_string(), format!("charstrings: {e}")))?;
        check_glyphs(&tag, &glyphs, &m.glyf, alts, 0)?;
        return Ok(());
    }
    // glyf / loca
    let long = w.loca_long;
    let loca = &p.tables[&LOCA];
    let unit = if long { 4 } else { 2 };
    if loca.len() != (w.n_glyphs as usize + 1) * unit {
        return Err(("C18.b.offset_width".into(), format!("loca has {} bytes, expected {} entries of width {}", loca.len(), w.n_glyphs + 1, unit)));
    }
    let offs = loca_offsets(loca, long);
    let glyphs = per_glyph(&offs, &p.tables[&GLYF]).map_err(|e| ("C18.b.offsets_ascending".to_string(), format!("glyf/loca: {e}")))?;
    check_glyphs(&GLYF, &glyphs, &m.glyf, alts, 1)?;
    if let Some(mg) = &m.gvar {
        let (glong, gl) = gvar_split(&p.tables[&GVAR]).map_err(|e| ("C18.b.offsets_ascending".to_string(), format!("gvar: {e}")))?;
        if gl.len() != w.n_glyphs as usize {
            return Err(("C18.b.offset_width".into(), format!("gvar holds {} glyphs, expected {}", gl.len(), w.n_glyphs)));
        }
        check_glyphs(&GVAR, &gl, mg, alts, 1)?;
        // width: long only if it was long before or the short form cannot hold the data
        if glong != m.gvar_long {
            return Err(("C18.b.offset_width".into(), format!("gvar offset width is {} but the model expects {}", if glong { "long" } else { "short" }, if m.gvar_long { "long" } else { "short" })));
        }
    }
    Ok(())
}

fn check_glyphs(tag: &Tag4, got: &[Vec<u8>], want: &[Vec<u8>], alts: &BTreeMap<(Tag4, u32), Vec<Vec<u8>>>, max_pad: usize) -> Result<(), (String, String)> {
    for (g, (a, b)) in got.iter().zip(want.iter()).enumerate() {
        let ok = if let Some(vs) = alts.get(&(*tag, g as u32)) { vs.iter().any(|v| matches_padded(a, v, max_pad)) } else { matches_padded(a, b, max_pad) };
        if !ok {
            return Err(("C18.b.glyph_data".into(), format!("{} glyph {}: {} bytes in font, expected {} bytes of patch/previous data plus zero padding", tag_str(tag), g, a.len(), b.len())));
        }
    }
    Ok(())
}

/// Size the model predicts for the data part of an offset array after padding.
fn padded_total(glyphs: &[Vec<u8>], short: bool) -> usize {
    glyphs.iter().map(|g| g.len() + if short { g.len() % 2 } else { 0 }).sum()
}

// ------------------------------------------------------------------ container monitor (C06)

/// The sfnt checksum from the OpenType specification (sum of big-endian u32 words, the last word zero
/// padded), written here so that the monitor does not depend on the library's implementation.
pub fn sfnt_checksum(b: &[u8]) -> u32 {
    let mut sum = 0u32;
    let mut i = 0;
    while i < b.len() {
        let mut w = [0u8; 4];
        let n = (b.len() - i).min(4);
        w[..n].copy_from_slice(&b[i..i + n]);
        sum = sum.wrapping_add(u32::from_be_bytes(w));
        i += 4;
    }
    sum
}

pub fn check_container(bytes: &[u8]) -> Result<(), String> {
    let f = FontRef::new(bytes).map_err(|e| format!("does not open: {e}"))?;
    let recs = f.table_directory.table_records();
    let mut prev: Option<Tag> = None;
    let mut spans: Vec<(u32, u32)> = Vec::new();
    for r in recs {
        if let Some(p) = prev {
            if r.tag() <= p {
                return Err(format!("directory tags not strictly ascending at {}", r.tag()));
            }
        }
        prev = Some(r.tag());
        let off = r.offset();
        let len = r.length();
        if off % 4 != 0 {
            return Err(format!("table {} not 4-byte aligned", r.tag()));
        }
        let end = off as usize + len as usize;
        let padded = (end + 3) & !3;
        if padded > bytes.len() {
            return Err(format!("table {} (with padding) runs past the end of the file", r.tag()));
        }
        if bytes[end..padded].iter().any(|b| *b != 0) {
            return Err(format!("padding after table {} is not zero", r.tag()));
        }
        let mut data = bytes[off as usize..end].to_vec();
        if r.tag() == Tag::new(b"head") && data.len() >= 12 {
            data[8..12].fill(0);
        }
        let sum = sfnt_checksum(&data);
        if sum != r.checksum() {
            return Err(format!("directory checksum of {} is {:08x}, table sums to {:08x}", r.tag(), r.checksum(), sum));
        }
        spans.push((off, padded as u32));
    }
    spans.sort();
    for w in spans.windows(2) {
        if w[0].1 > w[1].0 {
            return Err("tables overlap".into());
        }
    }
    if let Some(h) = f.table_data(Tag::new(b"head")) {
        if h.len() >= 12 {
            let total = sfnt_checksum(bytes);
            if total != 0xB1B0AFBA {
                return Err(format!("whole-file checksum is {total:08x}"));
            }
        }
    }
    Ok(())
}

// ------------------------------------------------------------------ the client driver (stub of ift_extend's loop)

pub struct Client {
    pub font: Vec<u8>,
    pub book: HashMap<String, UriStatus>,
}

fn book_snapshot(b: &HashMap<String, UriStatus>) -> BTreeMap<String, Option<Vec<u8>>> {
    b.iter()
        .map(|(k, v)| {
            (
                k.clone(),
                match v {
                    UriStatus::Applied => None,
                    UriStatus::Pending(d) => Some(d.clone()),
                },
            )
        })
        .collect()
}

#[derive(Clone, Debug, Serialize, Deserialize)]
pub struct RunPlan {
    pub world: World,
    /// the client extends to union(defs[..=k]) for k = 0, 1, ...
    pub defs: Vec<Def>,
    /// extra definitions for intersection comparisons at every visited state
    pub probes: Vec<Def>,
    pub faults: Vec<Fault>,
    pub hash_seed: u64,
    /// persist mode: true = atomic rename
    pub atomic_persist: bool,
}

pub struct RunOutcome {
    pub final_font: Vec<u8>,
    pub final_model: ModelFont,
    pub digest: u64,
    pub rounds: u32,
    pub ticks: u64,
    pub tainted: bool,
    pub ended: &'static str,
    pub decoder_calls_per_round: Vec<u32>,
    pub applied_uris: Vec<String>,
}

pub struct Sim<'a> {
    pub plan: &'a RunPlan,
    pub stats: &'a mut Stats,
    pub check_model: bool,
}

type V = Violation;

fn viol(prop: &str, oracle: &str, detail: String) -> V {
    Violation::new(prop, oracle, detail)
}

/// URI -> (version, entry) for every entry of every version of the world.
pub fn server_index(w: &World) -> BTreeMap<String, (usize, usize)> {
    let mut m = BTreeMap::new();
    for (vi, v) in w.versions.iter().enumerate() {
        for ei in 0..v.entries.len() {
            m.entry(w.uri_of(vi, ei)).or_insert((vi, ei));
        }
    }
    m
}

impl Sim<'_> {
    /// C19 oracles on one font state and one definition. Returns the real candidate list.
    pub fn check_selection(&mut self, font: &[u8], m: &ModelFont, def: &Def, with_group: bool) -> Result<Option<Vec<String>>, V> {
        let w = &self.plan.world;
        let fr = FontRef::new(font).map_err(|e| viol("C18", "C18.output_opens", format!("font does not open: {e}")))?;
        let rd = real_def(def);
        let got = intersecting_patches(&fr, &rd).map_err(|e| viol("C19", "C19.intersection_error", format!("intersecting_patches failed on a well-formed font: {e:?} (def {def:?})")))?;
        let mut got_list: Vec<(String, u8)> = Vec::new();
        for p in &got {
            let u = p.uri_string().map_err(|_| viol("C19", "C19.uri_template", "template expansion failed".into()))?;
            got_list.push((u, fmt_num(p.encoding())));
        }
        got_list.sort();
        let cands = w.candidates(m, def);
        let mut want_list: Vec<(String, u8)> = cands.iter().map(|c| (c.uri.clone(), c.format)).collect();
        want_list.sort();
        self.stats.bump("oracle.C19.intersection_vs_model");
        if got_list != want_list {
            return Err(viol("C19", "C19.intersection_set", format!("offered {:?}, specification model {:?} for definition {:?}", got_list, want_list, def)));
        }
        if !want_list.is_empty() {
            self.stats.bump("probe.C19.nonempty_intersection");
        }
        if !with_group {
            return Ok(None);
        }
        let group = PatchGroup::select_next_patches(fr, &rd).map_err(|e| viol("C19", "C19.selection_error", format!("select_next_patches failed: {e:?}")))?;
        let uris: Vec<String> = group.uris().map(|s| s.to_string()).collect();
        if group.has_uris() != !uris.is_empty() {
            return Err(viol("C19", "C19.has_uris", "has_uris() disagrees with uris()".into()));
        }
        if uris.is_empty() != cands.is_empty() {
            return Err(viol("C19", "C19.group_empty", format!("group has {} URIs but {} candidates intersect", uris.len(), cands.len())));
        }
        self.stats.bump("oracle.C19.group_rules");
        let set: BTreeSet<&String> = uris.iter().collect();
        if set.len() != uris.len() {
            return Err(viol("C19", "C19.group_duplicate_uri", format!("group lists a URI twice: {uris:?}")));
        }
        let by_uri: BTreeMap<&str, &Candidate> = cands.iter().map(|c| (c.uri.as_str(), c)).collect();
        let mut chosen: Vec<&Candidate> = Vec::new();
        for u in &uris {
            match by_uri.get(u.as_str()) {
                Some(c) => chosen.push(c),
                None => return Err(viol("C19", "C19.group_not_candidate", format!("selected URI {u} is not an intersecting, un-applied entry"))),
            }
        }
        let full: Vec<&&Candidate> = chosen.iter().filter(|c| c.format == 1).collect();
        if !full.is_empty() && chosen.len() != 1 {
            return Err(viol("C19", "C19.group_full_invalidation_alone", format!("fully invalidating patch selected together with others: {uris:?}")));
        }
        for slot in 0..2 {
            let inval = chosen.iter().filter(|c| c.slot == slot && c.format != 3).count();
            if inval > 1 {
                return Err(viol("C19", "C19.group_one_invalidating_per_table", format!("{inval} invalidating patches from one mapping table: {uris:?}")));
            }
            if inval == 1 && chosen.iter().any(|c| c.slot == slot && c.format == 3) {
                return Err(viol("C19", "C19.group_one_invalidating_per_table", format!("glyph-keyed patches selected from a table whose invalidating patch is selected: {uris:?}")));
            }
        }
        // preference among invalidating candidates
        let any_full = cands.iter().any(|c| c.format == 1);
        if any_full && full.is_empty() {
            return Err(viol("C19", "C19.group_prefers_full_invalidation", format!("a fully invalidating candidate exists but was not selected: {uris:?}")));
        }
        let classes: Vec<(u8, Option<usize>)> = if any_full { vec![(1, None)] } else { vec![(2, Some(0)), (2, Some(1))] };
        for (fmt, slot) in classes {
            let pool: Vec<&Candidate> = cands.iter().filter(|c| c.format == fmt && slot.map(|s| c.slot == s).unwrap_or(true)).collect();
            if pool.is_empty() {
                continue;
            }
            let sel: Vec<&&Candidate> = chosen.iter().filter(|c| c.format == fmt && slot.map(|s| c.slot == s).unwrap_or(true)).collect();
            if sel.len() != 1 {
                // with partial invalidation in both tables the second table's pick may be dropped only if it is the same URI
                return Err(viol("C19", "C19.group_invalidating_selected", format!("{} invalidating candidates in class {:?} but {} selected", pool.len(), (fmt, slot), sel.len())));
            }
            let key = |c: &Candidate| {
                let (a, b, d) = w.intersection_size(m, c, def);
                (a, b, d)
            };
            let ks = key(sel[0]);
            for o in &pool {
                let ko = key(o);
                // strictly larger in the stated lexicographic order, comparable design spaces only
                let ds_comparable = ko.2.iter().map(|x| x.0).collect::<Vec<_>>() == ks.2.iter().map(|x| x.0).collect::<Vec<_>>();
                let larger = (ko.0, ko.1) > (ks.0, ks.1) || ((ko.0, ko.1) == (ks.0, ks.1) && ds_comparable && ko.2 > ks.2);
                let tie_earlier = ko == ks && o.slot == sel[0].slot && o.entry < sel[0].entry;
                if larger || tie_earlier {
                    return Err(viol(
                        "C19",
                        "C19.group_largest_intersection_first",
                        format!("selected {} (intersection {:?}, entry {}) although {} (intersection {:?}, entry {}) is preferred", sel[0].uri, ks, sel[0].entry, o.uri, ko, o.entry),
                    ));
                }
            }
            self.stats.bump("probe.C19.invalidating_choice_checked");
        }
        Ok(Some(uris))
    }

    /// Selection rules on a font whose IFTX table repeats partial-invalidation entries (same URIs) of its
    /// IFT table: IFT picks its best candidate; IFTX must pick the best of its candidates other than that URI.
    pub fn check_twin_selection(&mut self, font: &[u8], m: &ModelFont, def: &Def) -> Result<(), V> {
        let w = &self.plan.world;
        let fr = FontRef::new(font).map_err(|e| viol("C18", "C18.output_opens", format!("font does not open: {e}")))?;
        let rd = real_def(def);
        let group = PatchGroup::select_next_patches(fr, &rd).map_err(|e| viol("C19", "C19.selection_error", format!("select_next_patches failed: {e:?}")))?;
        let uris: Vec<String> = group.uris().map(|s| s.to_string()).collect();
        let cands = w.candidates(m, def);
        if cands.iter().any(|c| c.format == 1) {
            return Ok(());
        }
        self.stats.bump("oracle.C19.twin_table_group_rules");
        let key = |c: &Candidate| w.intersection_size(m, c, def);
        let beaten = |sel: &Candidate, pool: &[&Candidate]| -> Option<String> {
            let ks = key(sel);
            for o in pool {
                let ko = key(o);
                let ds_comparable = ko.2.iter().map(|x| x.0).collect::<Vec<_>>() == ks.2.iter().map(|x| x.0).collect::<Vec<_>>();
                let larger = (ko.0, ko.1) > (ks.0, ks.1) || ((ko.0, ko.1) == (ks.0, ks.1) && ds_comparable && ko.2 > ks.2);
                let tie_earlier = ko == ks && o.entry < sel.entry;
                if larger || tie_earlier {
                    return Some(format!("selected {} (intersection {:?}, entry {}) although {} (intersection {:?}, entry {}) is preferred", sel.uri, ks, sel.entry, o.uri, ko, o.entry));
                }
            }
            None
        };
        let pool0: Vec<&Candidate> = cands.iter().filter(|c| c.slot == 0 && c.format == 2).collect();
        let mut idx = 0usize;
        let mut u0: Option<String> = None;
        if !pool0.is_empty() {
            let Some(u) = uris.get(idx) else { return Err(viol("C19", "C19.group_invalidating_selected", "IFT has invalidating candidates but the group is empty".into())) };
            let Some(sel) = pool0.iter().find(|c| &c.uri == u) else { return Err(viol("C19", "C19.group_invalidating_selected", format!("first URI {u} is not an invalidating candidate of IFT"))) };
            if let Some(why) = beaten(sel, &pool0) {
                return Err(viol("C19", "C19.group_largest_intersection_first", why));
            }
            u0 = Some(u.clone());
            idx += 1;
        }
        let pool1: Vec<&Candidate> = cands.iter().filter(|c| c.slot == 1 && c.format == 2 && Some(&c.uri) != u0.as_ref()).collect();
        if !pool1.is_empty() {
            self.stats.bump("probe.C19.iftx_pool_after_removing_ift_pick");
            let Some(u) = uris.get(idx) else {
                return Err(viol("C19", "C19.group_invalidating_selected", format!("IFTX has {} invalidating candidates other than IFT's pick {:?} but none was selected (group {uris:?})", pool1.len(), u0)));
            };
            let Some(sel) = pool1.iter().find(|c| &c.uri == u) else {
                return Err(viol("C19", "C19.group_invalidating_selected", format!("IFTX has invalidating candidates other than IFT's pick {:?} but the next URI {u} is not one of them (group {uris:?})", u0)));
            };
            if let Some(why) = beaten(sel, &pool1) {
                return Err(viol("C19", "C19.group_largest_intersection_first", why));
            }
        }
        let set: BTreeSet<&String> = uris.iter().collect();
        if set.len() != uris.len() {
            return Err(viol("C19", "C19.group_duplicate_uri", format!("group lists a URI twice: {uris:?}")));
        }
        Ok(())
    }

    /// Runs the extension to fixpoint.
    pub fn run(&mut self) -> Result<RunOutcome, V> {
        let plan = self.plan;
        let w = &plan.world;
        let server = server_index(w);
        let all_uris: Vec<&String> = server.keys().collect();
        let mut disk: Vec<u8> = w.base_font();
        let mut client = Client { font: disk.clone(), book: HashMap::new() };
        let mut model = w.initial_model();
        let mut disk_model = model.clone();
        let mut tainted = false;
        let decoder = SimDecoder::new();
        let mut d = Digest::new();
        let mut ticks: u64 = 0;
        let mut round: u32 = 0;
        let mut calls_per_round = Vec::new();
        let mut applied_uris: Vec<String> = Vec::new();
        let mut ever_applied: BTreeSet<String> = BTreeSet::new();
        let distinct_uris = server.len() as u32;
        let mut def_idx = 0usize;
        let mut def = plan.defs.first().cloned().unwrap_or_else(Def::all);
        let mut retries_this_round = 0u32;
        // URIs whose pending data was corrupted in transit: true = consequence known (must be rejected)
        let mut corrupt_uris: BTreeMap<String, bool> = BTreeMap::new();
        let mut ended: &'static str = "fixpoint";
        let mut rounds_since_faults_stopped = 0u32;
        let last_fault_round = plan.faults.iter().map(|f| f.round()).max();
        if self.check_model {
            check_container(&disk).map_err(|e| viol("C06", "C06.container", format!("base font: {e}")))?;
        }
        loop {
            if round > 60 + 3 * distinct_uris {
                return Err(viol("C19", "C19.liveness_bound", format!("no fixpoint after {round} rounds with {distinct_uris} distinct URIs")));
            }
            let faults: Vec<&Fault> = plan.faults.iter().filter(|f| f.round() == round).collect();
            // --- select
            let judge = self.check_model && !tainted;
            let uris: Vec<String> = if judge {
                for p in &plan.probes {
                    self.check_selection(&client.font, &model, p, false)?;
                    let u = def.union(p);
                    // monotonicity on the real outputs
                    let fr = FontRef::new(&client.font).unwrap();
                    let a: BTreeSet<String> = intersecting_patches(&fr, &real_def(p)).unwrap_or_default().iter().filter_map(|x| x.uri_string().ok()).collect();
                    let b: BTreeSet<String> = intersecting_patches(&fr, &real_def(&u)).unwrap_or_default().iter().filter_map(|x| x.uri_string().ok()).collect();
                    let c: BTreeSet<String> = intersecting_patches(&fr, &SubsetDefinition::all()).unwrap_or_default().iter().filter_map(|x| x.uri_string().ok()).collect();
                    self.stats.bump("oracle.C19.monotone");
                    if !a.is_subset(&b) || !b.is_subset(&c) {
                        return Err(viol("C19", "C19.monotone", format!("offered set does not grow with the definition: |d|={} |d u e|={} |all|={}", a.len(), b.len(), c.len())));
                    }
                }
                self.check_selection(&client.font, &model, &def, true)?.unwrap_or_default()
            } else {
                match FontRef::new(&client.font) {
                    Err(_) => {
                        ended = "font_unreadable";
                        break;
                    }
                    Ok(fr) => match PatchGroup::select_next_patches(fr, &real_def(&def)) {
                        Ok(g) => g.uris().map(|s| s.to_string()).collect(),
                        Err(_) => {
                            ended = "selection_error";
                            break;
                        }
                    },
                }
            };
            d.u64(uris.len() as u64);
            for u in &uris {
                d.str(u);
            }
            if uris.is_empty() {
                // fixpoint for this definition; grow it
                def_idx += 1;
                if def_idx >= plan.defs.len() {
                    break;
                }
                def = def.union(&plan.defs[def_idx]);
                self.stats.bump("sim.definition_grown");
                continue;
            }
            // --- fetch (discrete-event: responses ordered by arrival tick, then sequence)
            let mut arrivals: Vec<(u64, u32, String, Option<Vec<u8>>)> = Vec::new();
            let mut late_dups: Vec<(String, Vec<u8>)> = Vec::new();
            for (fi, u) in uris.iter().enumerate() {
                if matches!(client.book.get(u), Some(UriStatus::Applied)) {
                    continue;
                }
                if client.book.contains_key(u) {
                    continue;
                }
                let fi = fi as u32;
                let mut body: Option<Vec<u8>> = server.get(u).map(|(v, e)| w.patch_bytes(*v, *e));
                let mut latency: u64 = 5 + (fnv(u.as_bytes()) % 7);
                // at most one content fault per response, so that its consequence is known
                let mut content_faulted = false;
                for f in &faults {
                    match f {
                        Fault::NetDrop { fetch, .. } if *fetch == fi && retries_this_round == 0 => {
                            body = None;
                            latency += 100; // timeout
                            self.stats.bump("fault.net.drop");
                        }
                        Fault::Server404 { fetch, .. } if *fetch == fi && retries_this_round == 0 => {
                            body = None;
                            self.stats.bump("fault.server.404");
                        }
                        Fault::NetDelay { fetch, ticks, .. } if *fetch == fi => {
                            latency += *ticks as u64;
                            self.stats.bump("fault.net.delay_reorder");
                        }
                        Fault::NetDup { fetch, .. } if *fetch == fi => {
                            if let Some(b) = &body {
                                late_dups.push((u.clone(), b.clone()));
                                self.stats.bump("fault.net.duplicate");
                            }
                        }
                        Fault::NetTruncate { fetch, keep_permille, .. } if *fetch == fi && retries_this_round == 0 && !content_faulted => {
                            content_faulted = true;
                            if let Some(b) = body.as_mut() {
                                let keep = (b.len() as u64 * *keep_permille as u64 / 1000) as usize;
                                b.truncate(keep.min(b.len().saturating_sub(1)));
                                corrupt_uris.entry(u.clone()).or_insert(false);
                                self.stats.bump("fault.net.truncate");
                            }
                        }
                        Fault::NetCorruptHeader { fetch, which, .. } if *fetch == fi && retries_this_round == 0 && !content_faulted => {
                            content_faulted = true;
                            if let Some(b) = body.as_mut() {
                                match which % 4 {
                                    0 => b[1] ^= 0x20,
                                    1 => {
                                        let at = (if b.starts_with(b"ifgk") { 9 } else { 8 }) + 3;
                                        b[at] ^= 0x01;
                                    }
                                    3 => {
                                        // the patch carries the compatibility id of the font's OTHER mapping table
                                        let at = if b.starts_with(b"ifgk") { 9 } else { 8 };
                                        let mine = server.get(u).map(|x| x.0);
                                        let other = model.maps.iter().flatten().find(|m| Some(m.version) != mine).map(|m| w.versions[m.version].compat);
                                        match other {
                                            Some(c) if b.len() >= at + 16 && b[at..at + 16] != c => {
                                                b[at..at + 16].copy_from_slice(&c);
                                                self.stats.bump("fault.net.patch_carries_other_tables_compat_id");
                                            }
                                            _ => b[at + 3] ^= 0x01,
                                        }
                                    }
                                    _ => {
                                        if b.starts_with(b"ifgk") && b.len() > 29 {
                                            // max_uncompressed_length := 0
                                            b[25..29].fill(0);
                                        } else {
                                            b[1] ^= 0x20;
                                        }
                                    }
                                }
                                corrupt_uris.insert(u.clone(), true);
                                self.stats.bump("fault.net.corrupt_header");
                            }
                        }
                        Fault::NetFlipBit { fetch, bit, .. } if *fetch == fi && retries_this_round == 0 && !content_faulted => {
                            content_faulted = true;
                            if let Some(b) = body.as_mut() {
                                if !b.is_empty() {
                                    let i = (*bit as usize / 8) % b.len();
                                    b[i] ^= 1 << (bit % 8);
                                    corrupt_uris.entry(u.clone()).or_insert(false);
                                    self.stats.bump("fault.net.bit_flip");
                                }
                            }
                        }
                        Fault::NetStale { fetch, pick, .. } if *fetch == fi && retries_this_round == 0 && !content_faulted => {
                            content_faulted = true;
                            let other = all_uris[*pick as usize % all_uris.len()];
                            if other != u {
                                let (v, e) = server[other];
                                body = Some(w.patch_bytes(v, e));
                                corrupt_uris.entry(u.clone()).or_insert(false);
                                self.stats.bump("fault.net.stale_response");
                            }
                        }
                        _ => {}
                    }
                }
                if body.is_none() {
                    corrupt_uris.remove(u);
                }
                arrivals.push((ticks + latency, fi, u.clone(), body));
            }
            arrivals.sort_by(|a, b| (a.0, a.1).cmp(&(b.0, b.1)));
            let mut missing = false;
            for (t, _, u, body) in arrivals {
                ticks = ticks.max(t);
                match body {
                    Some(b) => {
                        client.book.entry(u).or_insert(UriStatus::Pending(b));
                    }
                    None => missing = true,
                }
            }
            // --- crash before apply?
            if faults.iter().any(|f| matches!(f, Fault::Crash { point: 0, .. })) && retries_this_round == 0 {
                self.stats.bump("fault.crash.before_apply");
                client = Client { font: disk.clone(), book: HashMap::new() };
                corrupt_uris.clear();
                model = disk_model.clone();
                round += 1;
                retries_this_round = 0;
                continue;
            }
            // --- apply
            let fail_at = faults.iter().find_map(|f| match f {
                Fault::DecoderFail { call, kind, .. } if retries_this_round == 0 => Some((*call, *kind)),
                _ => None,
            });
            decoder.reset(fail_at);
            let before = book_snapshot(&client.book);
            let fr = match FontRef::new(&client.font) {
                Ok(f) => f,
                Err(_) => {
                    ended = "font_unreadable";
                    break;
                }
            };
            let group = match PatchGroup::select_next_patches(fr, &real_def(&def)) {
                Ok(g) => g,
                Err(_) => {
                    ended = "selection_error";
                    break;
                }
            };
            let res = group.apply_next_patches_with_decoder(&mut client.book, &decoder);
            calls_per_round.push(decoder.calls.get());
            if decoder.fired.get() {
                self.stats.bump("fault.decoder.fail_at_call");
            }
            ticks += 1;
            let after = book_snapshot(&client.book);
            if std::env::var_os("VERIF_TRACE").is_some() {
                eprintln!("round {round} retry {retries_this_round} def_idx {def_idx} uris {uris:?} decoder_calls {} fired {} -> {:?}", decoder.calls.get(), decoder.fired.get(), res.as_ref().map(|f| f.len()));
            }
            match res {
                Err(e) => {
                    d.str("err");
                    self.stats.bump("oracle.C18.c.bookkeeping_unchanged_on_error");
                    if after != before {
                        let changed: Vec<&String> = after.iter().filter(|(k, v)| before.get(*k) != Some(v)).map(|(k, _)| k).collect();
                        return Err(viol("C18", "C18.c.bookkeeping_unchanged", format!("apply returned Err({e:?}) but the caller's bookkeeping changed for {changed:?}")));
                    }
                    let injected = missing || !corrupt_uris.is_empty() || decoder.fired.get() || tainted;
                    if !injected {
                        // fault-free error: must be one the model predicts
                        if judge {
                            let predicted = self.model_predicts_error(&model, &def, &uris, &before);
                            if predicted.is_none() {
                                let ctx = self.error_context(&model, &def, &uris, &before);
                                return Err(viol("C18", "C18.unexpected_error", format!("apply failed with {e:?} on well-formed patches and font (round {round}, uris {uris:?}) [{ctx}]")));
                            }
                            self.stats.bump("probe.C18.model_predicted_error");
                        }
                        ended = "apply_error";
                        break;
                    }
                    // injected fault: drop this round's pending data and fetch again, fault-free
                    self.stats.bump("sim.round_retried_after_fault");
                    client.book.retain(|_, v| matches!(v, UriStatus::Applied));
                    corrupt_uris.clear();
                    retries_this_round += 1;
                    if retries_this_round > 3 {
                        ended = "gave_up";
                        break;
                    }
                    continue;
                }
                Ok(new_font) => {
                    d.str("ok");
                    retries_this_round = 0;
                    let newly: Vec<String> = after.iter().filter(|(k, v)| v.is_none() && before.get(*k).map(|b| b.is_some()).unwrap_or(true)).map(|(k, _)| k.clone()).collect();
                    // nothing else may change
                    for (k, v) in &after {
                        if !newly.contains(k) && before.get(k) != Some(v) {
                            return Err(viol("C18", "C18.bookkeeping_only_applied_flips", format!("bookkeeping entry {k} changed without being applied")));
                        }
                    }
                    self.stats.bump("oracle.C19.progress");
                    if newly.is_empty() {
                        return Err(viol("C19", "C19.progress", format!("apply returned Ok without marking any URI applied (round {round})")));
                    }
                    for u in &newly {
                        if !ever_applied.insert(u.clone()) && !self_crashed(&plan.faults) {
                            return Err(viol("C19", "C19.progress", format!("URI {u} applied twice")));
                        }
                        if !uris.contains(u) {
                            return Err(viol("C19", "C19.progress", format!("URI {u} marked applied but was not in the selected group")));
                        }
                    }
                    applied_uris.extend(newly.iter().cloned());
                    if self.check_model {
                        check_container(&new_font).map_err(|e| viol("C06", "C06.container", format!("font emitted by the IFT client: {e}")))?;
                        self.stats.bump("oracle.C06.container_of_client_output");
                    }
                    for u in &newly {
                        match corrupt_uris.remove(u) {
                            Some(true) if !tainted => {
                                return Err(viol("C18", "C18.c.corrupt_patch_applied", format!("patch {u} with a corrupted format tag / compatibility id / size limit was applied")));
                            }
                            Some(_) => {
                                // undetectable payload corruption may have been applied: stop judging content
                                if !tainted {
                                    self.stats.bump("sim.run_tainted_by_undetectable_corruption");
                                }
                                tainted = true;
                            }
                            None => {}
                        }
                    }
                    if judge && !tainted {
                        let cands = w.candidates(&model, &def);
                        // several entries may name the same URI; the client marks one of them: every
                        // assignment of applied URIs to entries is an acceptable outcome
                        let mut options: Vec<Vec<Candidate>> = Vec::new();
                        for u in &newly {
                            let same: Vec<Candidate> = cands.iter().filter(|c| &c.uri == u).cloned().collect();
                            if same.is_empty() {
                                return Err(viol("C19", "C19.group_not_candidate", "applied URI is not a candidate".into()));
                            }
                            if same.len() > 1 {
                                self.stats.bump("probe.C19.uri_shared_by_several_entries_applied");
                            }
                            options.push(same);
                        }
                        let prev = parse_font(&client.font);
                        let mut combos: Vec<Vec<Candidate>> = vec![vec![]];
                        for o in &options {
                            let mut next = Vec::new();
                            for c in &combos {
                                for x in o {
                                    if next.len() < 512 {
                                        let mut v = c.clone();
                                        v.push(x.clone());
                                        next.push(v);
                                    }
                                }
                            }
                            combos = next;
                        }
                        let mut first_err: Option<V> = None;
                        let mut accepted: Option<(ModelFont, BTreeMap<(Tag4, u32), Vec<Vec<u8>>>)> = None;
                        for applied in &combos {
                            let r: Result<(ModelFont, BTreeMap<(Tag4, u32), Vec<Vec<u8>>>), V> = (|| {
                                let (next_model, alts) = if applied.iter().any(|c| c.format != 3) {
                                    if applied.len() != 1 {
                                        return Err(viol("C18", "C18.invalidating_applied_alone", format!("{} URIs applied together with an invalidating patch", applied.len())));
                                    }
                                    match w.model_apply_table(&model, &applied[0]) {
                                        Ok(n) => (n, BTreeMap::new()),
                                        Err(why) => return Err(viol("C18", "C18.expected_error", format!("table-keyed patch applied although the specification requires failure: {why}"))),
                                    }
                                } else {
                                    // all pending glyph-keyed URIs of the group must be applied in one pass
                                    match w.model_apply_glyph(&model, applied) {
                                        Ok((n, alts)) => {
                                            // short offsets that cannot hold the data: glyf must fail, gvar must widen
                                            let mut n = n;
                                            if w.carrier == 0 && !w.loca_long && padded_total(&n.glyf, true) > 0xFFFF * 2 && applied.iter().any(|c| patch_touches(w, &model, c, &GLYF)) {
                                                return Err(viol("C18", "C18.expected_error", "glyf data beyond the short-offset limit was accepted".into()));
                                            }
                                            if w.carrier != 0 && applied.iter().any(|c| patch_touches(w, &model, c, &w.outline_tag())) {
                                                let total = padded_total(&n.glyf, false);
                                                while cff_max_size(n.cff_off_size) < total && n.cff_off_size < 4 {
                                                    n.cff_off_size += 1;
                                                }
                                            }
                                            if let Some(gv) = &n.gvar {
                                                if !n.gvar_long && padded_total(gv, true) > 0xFFFF * 2 && applied.iter().any(|c| patch_touches(w, &model, c, &GVAR)) {
                                                    n.gvar_long = true;
                                                }
                                            }
                                            (n, alts)
                                        }
                                        Err(why) => return Err(viol("C18", "C18.expected_error", format!("glyph-keyed patches applied although the specification requires failure: {why}"))),
                                    }
                                };
                                if let Err((oracle, detail)) = compare_font(w, &new_font, &next_model, &alts, prev.as_ref()) {
                                    return Err(viol("C18", &oracle, format!("round {round}, applied {newly:?}: {detail}")));
                                }
                                Ok((next_model, alts))
                            })();
                            match r {
                                Ok(x) => {
                                    accepted = Some(x);
                                    break;
                                }
                                Err(e) => {
                                    if first_err.is_none() {
                                        first_err = Some(e);
                                    }
                                }
                            }
                        }
                        self.stats.bump("oracle.C18.ab.font_vs_model");
                        let Some((next_model, alts)) = accepted else {
                            return Err(first_err.unwrap());
                        };
                        if (next_model.gvar_long && !model.gvar_long) || next_model.cff_off_size > model.cff_off_size {
                            self.stats.bump("probe.C18.offset_width_widened");
                        }
                        // resolve alternatives to what the client actually chose, so that later rounds compare exactly
                        let mut nm = next_model;
                        if !alts.is_empty() {
                            resolve_alts(w, &new_font, &mut nm, &alts);
                        }
                        model = nm;
                        self.stats.state(mix(fnv(&new_font), fnv(format!("{:?}", after).as_bytes())));
                    }
                    client.font = new_font;
                }
            }
            d.bytes(&client.font);
            // --- late duplicate deliveries (must not resurrect an applied patch: driver policy or_insert)
            for (u, b) in late_dups {
                client.book.entry(u).or_insert(UriStatus::Pending(b));
            }
            // --- crash after apply, before persist
            if faults.iter().any(|f| matches!(f, Fault::Crash { point: 1, .. })) {
                self.stats.bump("fault.crash.after_apply_before_persist");
                client = Client { font: disk.clone(), book: HashMap::new() };
                corrupt_uris.clear();
                model = disk_model.clone();
                round += 1;
                continue;
            }
            // --- persist
            let torn = faults.iter().find_map(|f| match f {
                Fault::TornPersist { cut_permille, .. } => Some(*cut_permille),
                _ => None,
            });
            let lost = faults.iter().any(|f| matches!(f, Fault::LostPersist { .. }));
            if let Some(cut) = torn.filter(|_| !plan.atomic_persist) {
                // in-place write interrupted: prefix of the new image, suffix of the old one
                let newb = &client.font;
                let k = (newb.len() as u64 * cut as u64 / 1000) as usize;
                let mut img = newb[..k.min(newb.len())].to_vec();
                if disk.len() > img.len() {
                    img.extend_from_slice(&disk[img.len()..]);
                }
                disk = img;
                tainted = true;
                self.stats.bump("fault.disk.torn_write");
                client = Client { font: disk.clone(), book: HashMap::new() };
                corrupt_uris.clear();
                round += 1;
                continue;
            } else if lost {
                self.stats.bump("fault.disk.lost_write");
                client = Client { font: disk.clone(), book: HashMap::new() };
                corrupt_uris.clear();
                model = disk_model.clone();
                round += 1;
                continue;
            } else {
                disk = client.font.clone();
                disk_model = model.clone();
            }
            if faults.iter().any(|f| matches!(f, Fault::Crash { point: 2, .. })) {
                self.stats.bump("fault.crash.after_persist");
                client = Client { font: disk.clone(), book: HashMap::new() };
                corrupt_uris.clear();
                model = disk_model.clone();
            }
            if last_fault_round.map(|l| round > l).unwrap_or(true) {
                rounds_since_faults_stopped += 1;
                if rounds_since_faults_stopped > distinct_uris + plan.defs.len() as u32 + 2 {
                    return Err(viol("C19", "C19.liveness_bound", format!("{rounds_since_faults_stopped} rounds after the last fault without reaching a fixpoint ({distinct_uris} distinct URIs)")));
                }
            }
            round += 1;
        }
        self.stats.sim_ticks += ticks;
        self.stats.add("sim.rounds", round as u64);
        Ok(RunOutcome { final_font: client.font, final_model: model, digest: d.finish(), rounds: round, ticks, tainted, ended, decoder_calls_per_round: calls_per_round, applied_uris })
    }

    /// Facts about the failing application that identify known defects precisely.
    fn error_context(&self, model: &ModelFont, def: &Def, uris: &[String], before: &BTreeMap<String, Option<Vec<u8>>>) -> String {
        let w = &self.plan.world;
        let cands = w.candidates(model, def);
        let by_uri: BTreeMap<&str, &Candidate> = cands.iter().map(|c| (c.uri.as_str(), c)).collect();
        let gl: Vec<Candidate> = uris.iter().filter_map(|u| by_uri.get(u.as_str()).copied()).filter(|c| c.format == 3 && before.get(&c.uri).map(|v| v.is_some()).unwrap_or(false)).cloned().collect();
        let mut ctx = Vec::new();
        if let Ok((n, _)) = w.model_apply_glyph(model, &gl) {
            if let Some(gv) = &n.gvar {
                if gv.iter().all(|g| g.is_empty()) && gl.iter().any(|c| patch_touches(w, model, c, &GVAR)) {
                    ctx.push("gvar_all_glyph_data_empty=true");
                }
            }
            if n.glyf.iter().all(|g| g.is_empty()) && gl.iter().any(|c| patch_touches(w, model, c, &GLYF)) {
                ctx.push("glyf_all_glyph_data_empty=true");
            }
        }
        ctx.join(" ")
    }

    /// Does the specification require the next application to fail?
    fn model_predicts_error(&self, model: &ModelFont, def: &Def, uris: &[String], before: &BTreeMap<String, Option<Vec<u8>>>) -> Option<String> {
        let w = &self.plan.world;
        let cands = w.candidates(model, def);
        let by_uri: BTreeMap<&str, &Candidate> = cands.iter().map(|c| (c.uri.as_str(), c)).collect();
        let sel: Vec<&Candidate> = uris.iter().filter_map(|u| by_uri.get(u.as_str()).copied()).collect();
        // first invalidating patch that is pending
        if let Some(c) = sel.iter().find(|c| c.format != 3 && before.get(&c.uri).map(|v| v.is_some()).unwrap_or(false)) {
            return w.model_apply_table(model, c).err();
        }
        let gl: Vec<Candidate> = sel.iter().filter(|c| c.format == 3 && before.get(&c.uri).map(|v| v.is_some()).unwrap_or(false)).map(|c| (*c).clone()).collect();
        if gl.is_empty() {
            return Some("nothing pending to apply".into());
        }
        match w.model_apply_glyph(model, &gl) {
            Err(e) => Some(e),
            Ok((n, _)) => {
                if w.carrier == 0 && !w.loca_long && padded_total(&n.glyf, true) > 0xFFFF * 2 && gl.iter().any(|c| patch_touches(w, model, c, &GLYF)) {
                    return Some("glyf exceeds short offsets and loca cannot widen".into());
                }
                None
            }
        }
    }
}

fn self_crashed(faults: &[Fault]) -> bool {
    faults.iter().any(|f| matches!(f, Fault::Crash { .. } | Fault::TornPersist { .. } | Fault::LostPersist { .. }))
}

fn patch_touches(w: &World, m: &ModelFont, c: &Candidate, tag: &Tag4) -> bool {
    let Some(ms) = &m.maps[c.slot] else { return false };
    match &w.patches[w.versions[ms.version].entries[c.entry].patch] {
        Patch::Glyph { tables, .. } => tables.contains(tag),
        _ => false,
    }
}

fn resolve_alts(w: &World, font: &[u8], m: &mut ModelFont, alts: &BTreeMap<(Tag4, u32), Vec<Vec<u8>>>) {
    if w.carrier != 0 {
        return;
    }
    let Some(p) = parse_font(font) else { return };
    let offs = loca_offsets(&p.tables[&LOCA], w.loca_long);
    let glyphs = per_glyph(&offs, &p.tables[&GLYF]).unwrap_or_default();
    let gv = p.tables.get(&GVAR).and_then(|g| gvar_split(g).ok());
    for ((t, g), vs) in alts {
        if vs.len() < 2 {
            continue;
        }
        if *t == GLYF {
            if let Some(got) = glyphs.get(*g as usize) {
                if let Some(v) = vs.iter().find(|v| matches_padded(got, v, 1)) {
                    m.glyf[*g as usize] = v.clone();
                }
            }
        } else if *t == GVAR {
            if let (Some((_, gl)), Some(mg)) = (&gv, m.gvar.as_mut()) {
                if let Some(got) = gl.get(*g as usize) {
                    if let Some(v) = vs.iter().find(|v| matches_padded(got, v, 1)) {
                        mg[*g as usize] = v.clone();
                    }
                }
            }
        }
    }
}

/// Table-wise equality of two client outputs (file layout may differ, content may not).
pub fn same_tables(a: &[u8], b: &[u8]) -> Result<(), String> {
    let (Some(pa), Some(pb)) = (parse_font(a), parse_font(b)) else { return Err("a font does not open".into()) };
    let ka: Vec<String> = pa.tables.keys().map(tag_str).collect();
    let kb: Vec<String> = pb.tables.keys().map(tag_str).collect();
    if ka != kb {
        return Err(format!("table sets differ: {ka:?} vs {kb:?}"));
    }
    for (t, da) in &pa.tables {
        let db = &pb.tables[t];
        let eq = if *t == HEAD && da.len() >= 12 && db.len() == da.len() { da[..8] == db[..8] && da[12..] == db[12..] } else { da == db };
        if !eq {
            if *t == GVAR {
                if let (Ok((_, ga)), Ok((_, gb))) = (gvar_split(da), gvar_split(db)) {
                    let strip = |v: &Vec<u8>| -> Vec<u8> {
                        let mut v = v.clone();
                        while v.last() == Some(&0) {
                            v.pop();
                        }
                        v
                    };
                    if ga.len() == gb.len() && ga.iter().zip(gb.iter()).all(|(x, y)| strip(x) == strip(y)) {
                        return Err(format!("table gvar differs only in zero padding between glyph data ({} vs {} bytes)", da.len(), db.len()));
                    }
                }
            }
            return Err(format!("table {} differs ({} vs {} bytes)", tag_str(t), da.len(), db.len()));
        }
    }
    Ok(())
}

pub fn gen_faults(rng: &mut Rng, max_round: u32) -> Vec<Fault> {
    let n = 1 + rng.below(3);
    let mut v = Vec::new();
    for _ in 0..n {
        let round = rng.below(max_round as u64 + 1) as u32;
        let fetch = rng.below(3) as u32;
        v.push(match rng.below(14) {
            0 => Fault::NetDrop { round, fetch },
            1 => Fault::Server404 { round, fetch },
            2 => Fault::NetDup { round, fetch },
            3 => Fault::NetDelay { round, fetch, ticks: 1 + rng.below(30) as u32 },
            4 => Fault::NetTruncate { round, fetch, keep_permille: rng.below(1000) as u32 },
            5 => Fault::NetCorruptHeader { round, fetch, which: rng.below(4) as u8 },
            6 => Fault::NetFlipBit { round, fetch, bit: rng.below(4096) as u32 },
            7 => Fault::NetStale { round, fetch, pick: rng.below(64) as u32 },
            8 | 9 => Fault::DecoderFail { round, call: rng.below(4) as u32, kind: rng.below(6) as u8 },
            10 | 11 => Fault::Crash { round, point: rng.below(3) as u8 },
            12 => Fault::TornPersist { round, cut_permille: rng.below(1000) as u32 },
            _ => Fault::LostPersist { round },
        });
    }
    v
}
