pub mod compile;
pub mod drawhist;
pub mod ift;
pub mod sched;
