#!/bin/bash
# Shake-out: every quick check under other seeds, outputs redirected away from evidence/ and replays/.
#   tools/seed_sweep.sh <tier> <seed> [seed ...]        (PROPS="C02 C01 ..." restricts the checks)
tier=$1; shift
cd "$(dirname "$(realpath "$0")")/.."
for seed in "$@"; do
  for p in ${PROPS:-C20 C02 C01 C18 C19 C12 C07 C14 C13 C06}; do
    VERIF_OUT_DIR=$PWD/shake/s$seed VERIF_SEED=$seed ./check $p --tier $tier 2>&1 | grep -E "^OK|VIOLATION|HARNESS|KNOWN|oracle=|^NOTE: (case|[0-9])|stopped early" | cut -c1-260 | sed "s/^/[seed $seed $p] /"
  done
done
echo SWEEP-DONE
