pub mod compile;
pub mod ift;
pub mod sched;
