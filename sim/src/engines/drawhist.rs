//! C12 (and the stale-instance part of C02): operation histories over HintingInstance slots
//! and draws, judged against a fresh-world reference.

use crate::core::rng::{fnv, Digest, Rng};
use crate::core::{drop_chunks, Engine, Stats, Verdict, Violation};
use crate::corpus;
use crate::synth;
use serde::{Deserialize, Serialize};
use skrifa::instance::{LocationRef, NormalizedCoord, Size};
use skrifa::outline::{DrawError, DrawSettings, Engine as HintEngine, HintingInstance, HintingOptions, OutlinePen, SmoothMode, Target};
use skrifa::outline::pen::PathStyle;
use skrifa::raw::{FontRef, TableProvider};
use skrifa::{GlyphId, MetadataProvider};
use std::sync::OnceLock;

pub struct PoolFont {
    pub name: String,
    pub data: &'static [u8],
    pub n_glyphs: u32,
    pub n_axes: usize,
    pub synthetic: bool,
    pub is_glyf: bool,
}

pub fn pool() -> &'static [PoolFont] {
    static P: OnceLock<Vec<PoolFont>> = OnceLock::new();
    P.get_or_init(|| {
        let mut v = Vec::new();
        for (i, s) in synth::specs().iter().enumerate() {
            let data: &'static [u8] = Box::leak(synth::build(s).into_boxed_slice());
            v.push(PoolFont { name: format!("synth{}_{:02x}{}{}", i, s.contaminate, if s.big { "B" } else { "s" }, if s.bad_prep { "!" } else { "" }), data, n_glyphs: synth::N_GLYPHS as u32, n_axes: 0, synthetic: true, is_glyf: true });
        }
        for name in [
            "tinos_subset.ttf",
            "tthint_subset.ttf",
            "cvar.ttf",
            "vazirmatn_var_trimmed.ttf",
            "cantarell_vf_trimmed.ttf",
            "noto_serif_display_trimmed.ttf",
            "notoserifhebrew_autohint_metrics.ttf",
            "notoserif_autohint_shaping.ttf",
            "glyf_components.ttf",
            "starts_off_curve.ttf",
            "mostly_off_curve.ttf",
            "interpolate_this.ttf",
            "NotoSansJP-Regular.subset.otf",
            "NotoSansJP-VF.subset.otf",
            "material_icons_subset.ttf",
            "simple_glyf.ttf",
            // real-world fonts (klippa test data): real hinting programs, CFF and CFF2 with real charstrings
            "Roboto-Regular.ttf",
            "Ubuntu-Regular.ttf",
            "Comfortaa-Regular-new.ttf",
            "IndicTestHowrah-Regular.ttf",
            "SourceSansPro-Regular.otf",
            "AdobeVFPrototype.otf",
            "Foldit.ttf",
            "NanumMyeongjo-Regular-subset.ttf",
            "SreeKrushnadevaraya-Regular.ttf",
        ] {
            let Some(f) = corpus::by_name(name) else { continue };
            let Ok(fr) = FontRef::new(f.data) else { continue };
            let n = fr.maxp().map(|m| m.num_glyphs() as u32).unwrap_or(0);
            let n_axes = fr.axes().len();
            let is_glyf = fr.glyf().is_ok();
            if n > 0 {
                v.push(PoolFont { name: name.to_string(), data: f.data, n_glyphs: n, n_axes, synthetic: false, is_glyf });
            }
        }
        v
    })
}

#[derive(Clone, Debug, Serialize, Deserialize, PartialEq)]
pub struct Config {
    pub font: usize,
    /// ppem * 4; 0 = unscaled
    pub size_q: u32,
    /// normalized coords in F2Dot14 bits; empty = no location
    pub coords: Vec<i16>,
    /// 0 interpreter, 1 auto, 2 auto fallback
    pub engine: u8,
    /// 0 mono, 1 normal, 2 light, 3 lcd, 4 vertical lcd, 5 normal+symmetric, 6 normal+preserve linear metrics
    pub target: u8,
}

#[derive(Clone, Debug, Serialize, Deserialize, PartialEq)]
pub enum Mem {
    Lib,
    /// caller memory: offset from a 64-byte-aligned base, size = advertised + delta, fill byte pattern
    User { offset: u8, delta: i32, fill: u8 },
}

#[derive(Clone, Debug, Serialize, Deserialize, PartialEq)]
pub enum Op {
    New { slot: usize, cfg: Config },
    Reconfigure { slot: usize, cfg: Config },
    CloneSlot { from: usize, to: usize },
    Draw { slot: usize, glyph: u32, pedantic: bool, harfbuzz_style: bool, mem: Mem },
    /// draw a glyph of another font through the slot's instance (C02 only: must not panic)
    StaleDraw { slot: usize, font: usize, glyph: u32, mem: Mem },
    Unhinted { cfg: Config, glyph: u32, harfbuzz_style: bool, mem: Mem },
}

#[derive(Clone, Debug, Serialize, Deserialize)]
pub struct Trace {
    pub ops: Vec<Op>,
}

pub fn target_of(t: u8) -> Target {
    match t {
        0 => Target::Mono,
        1 => Target::Smooth { mode: SmoothMode::Normal, symmetric_rendering: false, preserve_linear_metrics: false },
        2 => Target::Smooth { mode: SmoothMode::Light, symmetric_rendering: false, preserve_linear_metrics: false },
        3 => Target::Smooth { mode: SmoothMode::Lcd, symmetric_rendering: false, preserve_linear_metrics: false },
        4 => Target::Smooth { mode: SmoothMode::VerticalLcd, symmetric_rendering: false, preserve_linear_metrics: false },
        5 => Target::Smooth { mode: SmoothMode::Normal, symmetric_rendering: true, preserve_linear_metrics: false },
        _ => Target::Smooth { mode: SmoothMode::Normal, symmetric_rendering: false, preserve_linear_metrics: true },
    }
}

pub fn engine_of(e: u8) -> HintEngine {
    match e {
        0 => HintEngine::Interpreter,
        1 => HintEngine::Auto(None),
        _ => HintEngine::AutoFallback,
    }
}

/// Engine code 3: the auto-hinter with glyph styles computed once per font and shared by every
/// instance of that font (the documented way to amortise style computation): state that outlives
/// each instance and each reconfigure.
pub fn engine_for(cfg: &Config) -> HintEngine {
    if cfg.engine != 3 {
        return engine_of(cfg.engine);
    }
    static STYLES: OnceLock<Vec<OnceLock<Option<skrifa::outline::GlyphStyles>>>> = OnceLock::new();
    let all = STYLES.get_or_init(|| pool().iter().map(|_| OnceLock::new()).collect());
    let s = all[cfg.font].get_or_init(|| {
        let fr = FontRef::new(pool()[cfg.font].data).ok()?;
        Some(skrifa::outline::GlyphStyles::new(&fr.outline_glyphs()))
    });
    match s {
        Some(s) => HintEngine::Auto(Some(s.clone())),
        None => HintEngine::Auto(None),
    }
}

pub fn size_of(q: u32) -> Size {
    if q == 0 {
        Size::unscaled()
    } else if q == u32::MAX {
        Size::new(f32::NAN)
    } else if q == u32::MAX - 1 {
        Size::new(f32::INFINITY)
    } else {
        Size::new(q as f32 / 4.0)
    }
}

#[derive(Default, Clone, PartialEq, Debug)]
pub struct Recording {
    pub cmds: Vec<(u8, [u32; 6])>,
}

impl OutlinePen for Recording {
    fn move_to(&mut self, x: f32, y: f32) {
        self.cmds.push((0, [x.to_bits(), y.to_bits(), 0, 0, 0, 0]));
    }
    fn line_to(&mut self, x: f32, y: f32) {
        self.cmds.push((1, [x.to_bits(), y.to_bits(), 0, 0, 0, 0]));
    }
    fn quad_to(&mut self, cx0: f32, cy0: f32, x: f32, y: f32) {
        self.cmds.push((2, [cx0.to_bits(), cy0.to_bits(), x.to_bits(), y.to_bits(), 0, 0]));
    }
    fn curve_to(&mut self, cx0: f32, cy0: f32, cx1: f32, cy1: f32, x: f32, y: f32) {
        self.cmds.push((3, [cx0.to_bits(), cy0.to_bits(), cx1.to_bits(), cy1.to_bits(), x.to_bits(), y.to_bits()]));
    }
    fn close(&mut self) {
        self.cmds.push((4, [0; 6]));
    }
}

#[derive(Clone, PartialEq, Debug)]
pub enum Observed {
    Ok { rec: Recording, lsb: Option<u32>, adv: Option<u32>, overlaps: bool },
    Err(String),
}

pub fn err_kind(e: &DrawError) -> String {
    let s = format!("{e:?}");
    s.chars().take_while(|c| c.is_alphanumeric()).collect()
}

/// grammar: (move (line|quad|curve)* close)*, all coordinates finite
pub fn well_formed(rec: &Recording) -> Result<(), String> {
    let mut open = false;
    for (i, (v, a)) in rec.cmds.iter().enumerate() {
        let n = match v {
            0 | 1 => 2,
            2 => 4,
            3 => 6,
            _ => 0,
        };
        for x in &a[..n] {
            if !f32::from_bits(*x).is_finite() {
                return Err(format!("command {i} has a non-finite coordinate"));
            }
        }
        match v {
            0 => {
                if open {
                    return Err(format!("command {i}: move inside an open contour"));
                }
                open = true;
            }
            4 => {
                if !open {
                    return Err(format!("command {i}: close without a contour"));
                }
                open = false;
            }
            _ => {
                if !open {
                    return Err(format!("command {i}: segment before a move"));
                }
            }
        }
    }
    if open {
        return Err("last contour is not closed".into());
    }
    Ok(())
}

thread_local! {
    static ARENA: std::cell::RefCell<Vec<u8>> = std::cell::RefCell::new(vec![0u8; 1 << 20]);
}

/// Runs `f` with caller memory carved from a 64-byte aligned arena (seam S6).
fn with_user_memory<R>(advertised: usize, offset: u8, delta: i32, fill: u8, f: impl FnOnce(Option<&mut [u8]>) -> R) -> R {
    ARENA.with(|a| {
        let mut a = a.borrow_mut();
        let size = (advertised as i64 + delta as i64).max(0) as usize;
        if size + 128 > a.len() {
            a.resize(size + 128, 0);
        }
        let base = a.as_ptr() as usize;
        let aligned = (base + 63) & !63;
        let start = aligned - base + (offset as usize & 63);
        let buf = &mut a[start..start + size];
        match fill {
            0 => buf.fill(0),
            1 => buf.fill(0xFF),
            2 => buf.fill(0xA5),
            _ => {
                let mut x = 0x9E37u32 ^ fill as u32;
                for b in buf.iter_mut() {
                    x = x.wrapping_mul(1664525).wrapping_add(1013904223);
                    *b = (x >> 24) as u8;
                }
            }
        }
        f(Some(buf))
    })
}

fn coords_of(c: &[i16]) -> Vec<NormalizedCoord> {
    c.iter().map(|b| NormalizedCoord::from_bits(*b)).collect()
}

pub fn make_instance(cfg: &Config) -> Result<HintingInstance, String> {
    let pf = &pool()[cfg.font];
    let fr = FontRef::new(pf.data).map_err(|_| "open".to_string())?;
    let outlines = fr.outline_glyphs();
    let coords = coords_of(&cfg.coords);
    HintingInstance::new(&outlines, size_of(cfg.size_q), LocationRef::new(&coords), HintingOptions { engine: engine_for(cfg), target: target_of(cfg.target) }).map_err(|e| err_kind(&e))
}

pub fn reconfigure(inst: &mut HintingInstance, cfg: &Config) -> Result<(), String> {
    let pf = &pool()[cfg.font];
    let fr = FontRef::new(pf.data).map_err(|_| "open".to_string())?;
    let outlines = fr.outline_glyphs();
    let coords = coords_of(&cfg.coords);
    inst.reconfigure(&outlines, size_of(cfg.size_q), LocationRef::new(&coords), HintingOptions { engine: engine_for(cfg), target: target_of(cfg.target) }).map_err(|e| err_kind(&e))
}

pub fn draw_hinted(inst: &HintingInstance, font: usize, glyph: u32, pedantic: bool, hb: bool, mem: &Mem) -> Observed {
    let pf = &pool()[font];
    let Ok(fr) = FontRef::new(pf.data) else { return Observed::Err("open".into()) };
    let outlines = fr.outline_glyphs();
    let Some(g) = outlines.get(GlyphId::new(glyph)) else { return Observed::Err("noglyph".into()) };
    let mut rec = Recording::default();
    let style = if hb { PathStyle::HarfBuzz } else { PathStyle::FreeType };
    let r = match mem {
        Mem::Lib => g.draw(DrawSettings::hinted(inst, pedantic).with_path_style(style), &mut rec),
        Mem::User { offset, delta, fill } => {
            let adv = g.draw_memory_size(skrifa::outline::Hinting::Embedded);
            with_user_memory(adv, *offset, *delta, *fill, |m| g.draw(DrawSettings::hinted(inst, pedantic).with_path_style(style).with_memory(m), &mut rec))
        }
    };
    match r {
        Ok(m) => Observed::Ok { rec, lsb: m.lsb.map(f32::to_bits), adv: m.advance_width.map(f32::to_bits), overlaps: m.has_overlaps },
        Err(e) => Observed::Err(err_kind(&e)),
    }
}

pub fn draw_unhinted(cfg: &Config, glyph: u32, hb: bool, mem: &Mem, zero_as_none: bool) -> Observed {
    let pf = &pool()[cfg.font];
    let Ok(fr) = FontRef::new(pf.data) else { return Observed::Err("open".into()) };
    let outlines = fr.outline_glyphs();
    let Some(g) = outlines.get(GlyphId::new(glyph)) else { return Observed::Err("noglyph".into()) };
    let mut rec = Recording::default();
    let style = if hb { PathStyle::HarfBuzz } else { PathStyle::FreeType };
    let coords = if zero_as_none && cfg.coords.iter().all(|c| *c == 0) { vec![] } else { coords_of(&cfg.coords) };
    let loc = LocationRef::new(&coords);
    let r = match mem {
        Mem::Lib => g.draw(DrawSettings::unhinted(size_of(cfg.size_q), loc).with_path_style(style), &mut rec),
        Mem::User { offset, delta, fill } => {
            let adv = g.draw_memory_size(skrifa::outline::Hinting::None);
            with_user_memory(adv, *offset, *delta, *fill, |m| g.draw(DrawSettings::unhinted(size_of(cfg.size_q), loc).with_path_style(style).with_memory(m), &mut rec))
        }
    };
    match r {
        Ok(m) => Observed::Ok { rec, lsb: m.lsb.map(f32::to_bits), adv: m.advance_width.map(f32::to_bits), overlaps: m.has_overlaps },
        Err(e) => Observed::Err(err_kind(&e)),
    }
}

pub fn gen_config(rng: &mut Rng, prefer_synth: bool) -> Config {
    let p = pool();
    let font = loop {
        let i = rng.usize_below(p.len());
        if !prefer_synth || p[i].synthetic || rng.chance(1, 3) {
            break i;
        }
    };
    let pf = &p[font];
    let size_q = match rng.below(10) {
        0 => 0,
        1..=6 => 4 * (6 + rng.below(40) as u32),
        _ => 24 + rng.below(400) as u32,
    };
    let coords: Vec<i16> = if pf.n_axes == 0 {
        if rng.chance(1, 10) {
            vec![0; 1 + rng.below(2) as usize]
        } else {
            vec![]
        }
    } else {
        match rng.below(4) {
            0 => vec![],
            1 => vec![0; pf.n_axes],
            _ => (0..pf.n_axes).map(|_| *rng.pick(&[-16384i16, -8192, -3000, 0, 4096, 8192, 16384])).collect(),
        }
    };
    let engine = if pf.synthetic { *rng.pick(&[0u8, 0, 0, 2, 1]) } else { rng.below(3) as u8 };
    Config { font, size_q, coords, engine, target: rng.below(7) as u8 }
}

/// A configuration one step away from `old`: the same font with one or two of location, size, target
/// and engine changed - what a text stack does between runs of text, and where state kept "because
/// nothing relevant changed" goes wrong.
pub fn gen_neighbour_config(rng: &mut Rng, old: &Config) -> Config {
    let pf = &pool()[old.font];
    let mut c = old.clone();
    for _ in 0..1 + rng.below(2) {
        match rng.below(5) {
            0 | 1 if pf.n_axes > 0 => {
                c.coords = match rng.below(5) {
                    0 => vec![],
                    1 => vec![0; pf.n_axes],
                    _ => (0..pf.n_axes).map(|_| *rng.pick(&[-16384i16, -8192, -3000, 0, 4096, 8192, 16384])).collect(),
                }
            }
            2 => c.size_q = 4 * (6 + rng.below(40) as u32),
            3 => c.target = rng.below(7) as u8,
            _ => c.engine = if pf.synthetic { *rng.pick(&[0u8, 2, 1]) } else { *rng.pick(&[0u8, 1, 2, 3, 3]) },
        }
    }
    c
}

pub fn gen_mem(rng: &mut Rng) -> Mem {
    match rng.below(5) {
        0 | 1 => Mem::Lib,
        2 => Mem::User { offset: rng.below(8) as u8, delta: 0, fill: rng.below(5) as u8 },
        3 => Mem::User { offset: rng.below(8) as u8, delta: rng.range(0, 64) as i32, fill: 1 + rng.below(4) as u8 },
        _ => Mem::User { offset: rng.below(8) as u8, delta: -(rng.range(1, 96) as i32), fill: 1 + rng.below(4) as u8 },
    }
}

pub struct DrawHistory {
    pub stale: bool,
}

fn prop_of(stale: bool) -> &'static str {
    if stale {
        "C02"
    } else {
        "C12"
    }
}

impl Engine for DrawHistory {
    type Trace = Trace;
    fn name(&self) -> &'static str {
        if self.stale {
            "draw_history_stale_instance"
        } else {
            "draw_history"
        }
    }
    fn rule(&self) -> &'static str {
        if self.stale {
            "case = history of new/reconfigure/clone/draw over 1-3 hinting-instance slots that also draws glyphs of OTHER fonts through an instance, after failed reconfigures, with non-finite sizes, arbitrary coordinate vectors and too-small caller memory; judged by totality only; non-trivial iff >=1 stale or undersized draw ran"
        } else {
            "case = history (<=24 ops) of new/reconfigure/clone/draw over 1-3 hinting-instance slots across synthetic state-revealing fonts and corpus fonts; every draw compared with a fresh instance + library memory + None location; distinct by hash of the history; non-trivial iff >=1 draw followed a reconfigure from a different configuration class or used caller memory"
        }
    }
    fn components(&self) -> &'static str {
        "real: skrifa HintingInstance::new/reconfigure/clone, OutlineGlyph::draw (glyf/CFF/CFF2, interpreter and auto-hinter), memory carving; stub: recording pen, caller memory arena (alignment, size, fill chosen by the simulator); synthetic fonts assembled with write-fonts"
    }
    fn generate(&self, case_seed: u64) -> Trace {
        let mut rng = Rng::new(case_seed);
        let n_slots = 1 + rng.usize_below(3);
        let n_ops = 4 + rng.usize_below(20);
        let mut ops = Vec::new();
        let mut cfgs: Vec<Option<Config>> = vec![None; n_slots];
        for _ in 0..n_ops {
            let slot = rng.usize_below(n_slots);
            let have = cfgs[slot].is_some();
            let k = rng.below(10);
            if !have || k == 0 {
                let mut cfg = gen_config(&mut rng, true);
                if !pool()[cfg.font].synthetic && pool()[cfg.font].is_glyf && rng.chance(1, 5) {
                    cfg.engine = 3;
                }
                cfgs[slot] = Some(cfg.clone());
                ops.push(Op::New { slot, cfg });
            } else if k <= 3 {
                let cfg = if rng.chance(1, 2) { gen_neighbour_config(&mut rng, cfgs[slot].as_ref().unwrap()) } else { gen_config(&mut rng, true) };
                cfgs[slot] = Some(cfg.clone());
                ops.push(Op::Reconfigure { slot, cfg });
            } else if k == 4 && n_slots > 1 {
                let to = (slot + 1) % n_slots;
                cfgs[to] = cfgs[slot].clone();
                ops.push(Op::CloneSlot { from: slot, to });
            } else if k == 5 {
                let cfg = gen_config(&mut rng, false);
                let n = pool()[cfg.font].n_glyphs;
                ops.push(Op::Unhinted { glyph: rng.below(n as u64) as u32, cfg, harfbuzz_style: rng.chance(1, 3), mem: gen_mem(&mut rng) });
            } else if self.stale && k == 6 {
                let font = rng.usize_below(pool().len());
                let n = pool()[font].n_glyphs;
                ops.push(Op::StaleDraw { slot, font, glyph: rng.below(n as u64 + 2) as u32, mem: gen_mem(&mut rng) });
            } else {
                let cfg = cfgs[slot].as_ref().unwrap();
                let n = pool()[cfg.font].n_glyphs;
                ops.push(Op::Draw { slot, glyph: rng.below(n as u64) as u32, pedantic: rng.chance(1, 3), harfbuzz_style: rng.chance(1, 8), mem: gen_mem(&mut rng) });
            }
        }
        if self.stale {
            // hostile arguments: non-finite sizes, coordinate vectors of any length
            for op in ops.iter_mut() {
                if let Op::New { cfg, .. } | Op::Reconfigure { cfg, .. } | Op::Unhinted { cfg, .. } = op {
                    if rng.chance(1, 6) {
                        cfg.size_q = *rng.pick(&[u32::MAX, u32::MAX - 1, 1, 4_000_000]);
                    }
                    if rng.chance(1, 6) {
                        cfg.coords = (0..rng.below(70)).map(|_| rng.range(-32768, 32767) as i16).collect();
                    }
                }
            }
        }
        Trace { ops }
    }

    fn execute(&self, t: &mut Trace, stats: &mut Stats) -> Verdict {
        let prop = prop_of(self.stale);
        let mut slots: Vec<Option<(HintingInstance, Config, bool)>> = vec![None, None, None];
        let mut d = Digest::new();
        let mut nontrivial = false;
        let mut last_cfg: Option<Config> = None;
        for (i, op) in t.ops.iter().enumerate() {
            match op {
                Op::New { slot, cfg } => match make_instance(&special_size(cfg)) {
                    Ok(inst) => {
                        slots[*slot] = Some((inst, cfg.clone(), true));
                    }
                    Err(e) => {
                        d.str(&e);
                        slots[*slot] = None;
                        stats.bump("probe.C12.configuration_failed");
                    }
                },
                Op::Reconfigure { slot, cfg } => {
                    if let Some((inst, old, ok)) = slots[*slot].as_mut() {
                        if !*ok {
                            stats.bump("probe.C12.reconfigure_after_failed_reconfigure");
                        }
                        if class_of(old) != class_of(cfg) {
                            stats.state(fnv(format!("{:?}->{:?}", class_of(old), class_of(cfg)).as_bytes()));
                        }
                        match reconfigure(inst, &special_size(cfg)) {
                            Ok(()) => {
                                *old = cfg.clone();
                                *ok = true;
                            }
                            Err(e) => {
                                d.str(&e);
                                *old = cfg.clone();
                                *ok = false;
                                stats.bump("fault.history.failed_reconfigure");
                            }
                        }
                    }
                }
                Op::CloneSlot { from, to } => {
                    if let Some((inst, cfg, ok)) = &slots[*from] {
                        slots[*to] = Some((inst.clone(), cfg.clone(), *ok));
                        stats.bump("probe.C12.instance_cloned");
                    }
                }
                Op::Draw { slot, glyph, pedantic, harfbuzz_style, mem } => {
                    let Some((inst, cfg, ok)) = &slots[*slot] else { continue };
                    let got = draw_hinted(inst, cfg.font, *glyph, *pedantic, *harfbuzz_style, mem);
                    digest_obs(&mut d, &got);
                    if !*ok || self.stale {
                        // after a failed reconfigure only totality is required
                        if matches!(mem, Mem::User { delta, .. } if *delta < 0) {
                            nontrivial = true;
                        }
                        continue;
                    }
                    // fresh-world reference
                    let fresh_cfg = {
                        let mut c = cfg.clone();
                        if c.coords.iter().all(|x| *x == 0) {
                            c.coords.clear();
                        }
                        c
                    };
                    let want = match make_instance(&fresh_cfg) {
                        Ok(fresh) => draw_hinted(&fresh, cfg.font, *glyph, *pedantic, *harfbuzz_style, &Mem::Lib),
                        Err(e) => Observed::Err(format!("config:{e}")),
                    };
                    stats.bump("oracle.C12.draw_vs_fresh_instance");
                    if let Mem::User { delta, fill, offset } = mem {
                        if *delta == 0 && *offset % 2 == 1 {
                            stats.bump("probe.C12.user_buffer_exact_size_odd_alignment");
                        }
                        if *fill != 0 {
                            stats.bump("fault.memory.dirty_scratch");
                        }
                        if *delta < 0 {
                            stats.bump("fault.memory.undersized");
                        }
                        nontrivial = true;
                    }
                    if last_cfg.as_ref().map(|l| class_of(l) != class_of(cfg)).unwrap_or(false) {
                        nontrivial = true;
                    }
                    last_cfg = Some(cfg.clone());
                    let undersized = matches!(mem, Mem::User { delta, .. } if *delta < 0);
                    let acceptable = got == want || (undersized && got == Observed::Err("InsufficientMemory".into()));
                    if !acceptable {
                        return Verdict::Fail(Violation::new(
                            prop,
                            "C12.draw_differs_from_fresh_instance",
                            format!("op {i}: draw of glyph {glyph} of {} through a reused instance / caller memory differs from a fresh instance: got {}, fresh {}", pool()[cfg.font].name, brief(&got), brief(&want)),
                        ));
                    }
                    if let Observed::Ok { rec, .. } = &got {
                        if pool()[cfg.font].is_glyf {
                            stats.bump("oracle.C12.well_formed_path");
                            if let Err(e) = well_formed(rec) {
                                return Verdict::Fail(Violation::new(prop, "C12.path_grammar", format!("op {i}: glyph {glyph} of {}: {e}", pool()[cfg.font].name)));
                            }
                        }
                        if matches!(rec.cmds.first(), Some(_)) && pool()[cfg.font].synthetic && *glyph >= 1 {
                            stats.bump("probe.C12.probe_glyph_drawn");
                        }
                    }
                    // repeat: same stream
                    let again = draw_hinted(inst, cfg.font, *glyph, *pedantic, *harfbuzz_style, mem);
                    stats.bump("oracle.C12.repeatable");
                    if again != got {
                        return Verdict::Fail(Violation::new(prop, "C12.draw_not_repeatable", format!("op {i}: drawing glyph {glyph} twice gives different results")));
                    }
                }
                Op::StaleDraw { slot, font, glyph, mem } => {
                    let Some((inst, _, _)) = &slots[*slot] else { continue };
                    stats.bump("fault.history.stale_instance_draw");
                    nontrivial = true;
                    let got = draw_hinted(inst, *font, *glyph, false, false, mem);
                    digest_obs(&mut d, &got);
                }
                Op::Unhinted { cfg, glyph, harfbuzz_style, mem } => {
                    let cfg2 = special_size(cfg);
                    let got = draw_unhinted(&cfg2, *glyph, *harfbuzz_style, mem, false);
                    digest_obs(&mut d, &got);
                    if self.stale {
                        continue;
                    }
                    let want = draw_unhinted(cfg, *glyph, *harfbuzz_style, &Mem::Lib, true);
                    stats.bump("oracle.C12.unhinted_vs_reference");
                    let undersized = matches!(mem, Mem::User { delta, .. } if *delta < 0);
                    if matches!(mem, Mem::User { .. }) {
                        nontrivial = true;
                    }
                    let acceptable = got == want || (undersized && got == Observed::Err("InsufficientMemory".into()));
                    if !acceptable {
                        return Verdict::Fail(Violation::new(
                            prop,
                            "C12.unhinted_differs",
                            format!("op {i}: unhinted draw of glyph {glyph} of {} with caller memory / explicit zero location differs from library memory / no location: got {}, reference {}", pool()[cfg.font].name, brief(&got), brief(&want)),
                        ));
                    }
                    if let Observed::Ok { rec, .. } = &got {
                        if pool()[cfg.font].is_glyf {
                            if let Err(e) = well_formed(rec) {
                                return Verdict::Fail(Violation::new(prop, "C12.path_grammar", format!("op {i}: unhinted glyph {glyph} of {}: {e}", pool()[cfg.font].name)));
                            }
                        }
                    }
                }
            }
        }
        Verdict::Pass { digest: d.finish(), sig: fnv(serde_json::to_string(&t.ops).unwrap_or_default().as_bytes()), nontrivial }
    }

    fn shrink(&self, t: &Trace) -> Vec<Trace> {
        let mut out: Vec<Trace> = drop_chunks(&t.ops).into_iter().map(|ops| Trace { ops }).collect();
        // simplify memory modes
        for (i, op) in t.ops.iter().enumerate() {
            if let Op::Draw { mem, .. } | Op::Unhinted { mem, .. } | Op::StaleDraw { mem, .. } = op {
                if *mem != Mem::Lib {
                    let mut c = t.clone();
                    match &mut c.ops[i] {
                        Op::Draw { mem, .. } | Op::Unhinted { mem, .. } | Op::StaleDraw { mem, .. } => *mem = Mem::Lib,
                        _ => {}
                    }
                    out.push(c);
                }
            }
        }
        out
    }
}

/// u32::MAX and u32::MAX-1 stand for NaN and +inf ppem (hostile sizes for the C02 surface).
fn special_size(cfg: &Config) -> Config {
    cfg.clone()
}

fn class_of(c: &Config) -> (usize, u8, u8, u8, u8) {
    (c.font, c.engine, c.target, if c.size_q == 0 { 0 } else if c.size_q < 64 { 1 } else { 2 }, if c.coords.is_empty() { 0 } else if c.coords.iter().all(|x| *x == 0) { 1 } else { 2 })
}

fn brief(o: &Observed) -> String {
    match o {
        Observed::Err(e) => format!("Err({e})"),
        Observed::Ok { rec, lsb, adv, .. } => {
            let mut d = Digest::new();
            for (v, a) in &rec.cmds {
                d.u64(*v as u64);
                for x in a {
                    d.u64(*x as u64);
                }
            }
            format!("Ok({} commands, digest {:08x}, lsb {:?}, advance {:?})", rec.cmds.len(), d.finish() as u32, lsb.map(f32::from_bits), adv.map(f32::from_bits))
        }
    }
}

fn digest_obs(d: &mut Digest, o: &Observed) {
    match o {
        Observed::Err(e) => d.str(e),
        Observed::Ok { rec, lsb, adv, overlaps } => {
            for (v, a) in &rec.cmds {
                d.u64(*v as u64);
                for x in a {
                    d.u64(*x as u64);
                }
            }
            d.u64(lsb.unwrap_or(1) as u64);
            d.u64(adv.unwrap_or(1) as u64);
            d.u64(*overlaps as u64);
        }
    }
}

// ------------------------------------------------------------------ concurrent draws (auto-hinter lazy cache)

use crate::engines::sched::{self, Recorded, SchedSpec};
use std::sync::{Arc, Mutex};

#[derive(Clone, Debug, Serialize, Deserialize)]
pub struct ConcurrentTrace {
    pub cfg: Config,
    /// per task: (glyph, draw through a clone of the shared instance)
    pub tasks: Vec<Vec<(u32, bool)>>,
    pub sched: SchedSpec,
    #[serde(default)]
    pub schedule: Recorded,
}

pub struct ConcurrentDraws;

impl Engine for ConcurrentDraws {
    type Trace = ConcurrentTrace;
    fn name(&self) -> &'static str {
        "draw_concurrent_shared_instance"
    }
    fn rule(&self) -> &'static str {
        "case = 2-4 simulated threads drawing 1-6 glyphs each through ONE shared auto-hinting instance (or clones sharing its lazy metrics cache), with a seeded schedule over the scheduling points around the cache's RwLock; every draw compared with a quiet single-threaded fresh instance; non-trivial iff >=1 task switch happened at a cache scheduling point"
    }
    fn components(&self) -> &'static str {
        "real: skrifa auto-hinter instance, lazy UnscaledStyleMetricsSet cache (std RwLock), draw; simulated: OS scheduler (shuttle coroutines + TraceScheduler)"
    }
    fn generate(&self, case_seed: u64) -> ConcurrentTrace {
        let mut rng = Rng::new(case_seed);
        let p = pool();
        let font = loop {
            let i = rng.usize_below(p.len());
            if p[i].is_glyf && !p[i].synthetic {
                break i;
            }
        };
        let mut cfg = gen_config(&mut rng, false);
        cfg.font = font;
        cfg.engine = if rng.chance(1, 3) { 3 } else { 1 };
        cfg.coords = if p[font].n_axes > 0 && rng.chance(1, 2) { (0..p[font].n_axes).map(|_| *rng.pick(&[-8192i16, 0, 8192, 16384])).collect() } else { vec![] };
        if cfg.size_q == 0 {
            cfg.size_q = 64;
        }
        let n_tasks = 2 + rng.usize_below(3);
        let n = p[font].n_glyphs;
        // few distinct glyphs so that tasks contend for the same cache entries
        let hot: Vec<u32> = (0..1 + rng.below(3)).map(|_| rng.below(n as u64) as u32).collect();
        let tasks = (0..n_tasks).map(|_| (0..1 + rng.below(6)).map(|_| (if rng.chance(2, 3) { *rng.pick(&hot) } else { rng.below(n as u64) as u32 }, rng.chance(1, 3))).collect()).collect();
        ConcurrentTrace { cfg, tasks, sched: SchedSpec::generate(&mut rng, n_tasks as u32), schedule: vec![] }
    }
    fn execute(&self, t: &mut ConcurrentTrace, stats: &mut Stats) -> Verdict {
        // one-off initialisation (building the synthetic fonts compiles tables and would pass
        // through the object-id scheduling point) must happen outside the simulated execution
        let _ = pool();
        let _ = engine_for(&t.cfg); // shared glyph styles are computed here, not inside the simulated execution
        let results: Arc<Mutex<Vec<(usize, usize, Observed)>>> = Arc::new(Mutex::new(Vec::new()));
        let tt = t.clone();
        let res = results.clone();
        let replay = if t.schedule.is_empty() { None } else { Some(t.schedule.clone()) };
        let sim = sched::run_sim(&t.sched, replay.as_ref(), move || {
            let Ok(inst) = make_instance(&tt.cfg) else { return };
            let shared = Arc::new(inst);
            let mut hs = Vec::new();
            for (ti, draws) in tt.tasks.iter().enumerate() {
                let draws = draws.clone();
                let shared = shared.clone();
                let res = res.clone();
                let font = tt.cfg.font;
                hs.push(shuttle::thread::spawn(move || {
                    for (di, (glyph, via_clone)) in draws.iter().enumerate() {
                        sched::harness_point();
                        let o = if *via_clone {
                            let c = (*shared).clone();
                            draw_hinted(&c, font, *glyph, false, false, &Mem::Lib)
                        } else {
                            draw_hinted(&shared, font, *glyph, false, false, &Mem::Lib)
                        };
                        res.lock().unwrap().push((ti, di, o));
                    }
                }));
            }
            for h in hs {
                let _ = h.join();
            }
        });
        if sim.panicked {
            return crate::core::panic_verdict();
        }
        if t.schedule.is_empty() {
            t.schedule = sim.recorded.clone();
        }
        stats.add("sched.decisions", sim.decisions);
        stats.add("sched.points.cache_before_read", sim.sites.per_site[1]);
        stats.add("sched.points.cache_after_read", sim.sites.per_site[2]);
        stats.add("sched.points.cache_before_write", sim.sites.per_site[3]);
        stats.add("probe.C12.task_switch_at_cache_point", sim.sites.task_switches_at_points);
        if sim.sites.per_site[3] > sim.sites.per_site[2].min(1) && sim.sites.per_site[3] >= 2 {
            stats.bump("probe.C12.cache_entry_computed_more_than_once_possible");
        }
        stats.state(sim.sites.interleaving);
        let results = results.lock().unwrap();
        let mut d = Digest::new();
        let expected: usize = t.tasks.iter().map(|x| x.len()).sum();
        if results.len() != expected {
            return Verdict::Inconclusive(format!("{} of {} draws reported", results.len(), expected));
        }
        let mut sorted: Vec<&(usize, usize, Observed)> = results.iter().collect();
        sorted.sort_by_key(|r| (r.0, r.1));
        for (ti, di, got) in sorted {
            let glyph = t.tasks[*ti][*di].0;
            let want = match make_instance(&t.cfg) {
                Ok(fresh) => draw_hinted(&fresh, t.cfg.font, glyph, false, false, &Mem::Lib),
                Err(e) => Observed::Err(format!("config:{e}")),
            };
            stats.bump("oracle.C12.concurrent_draw_vs_quiet_fresh_instance");
            if *got != want {
                return Verdict::Fail(Violation::new(
                    "C12",
                    "C12.concurrent_draw_differs",
                    format!("task {ti} draw {di} (glyph {glyph} of {}) through a shared auto-hinting instance differs from a quiet fresh instance: got {}, fresh {}", pool()[t.cfg.font].name, brief(got), brief(&want)),
                ));
            }
            digest_obs(&mut d, got);
        }
        let sig = fnv(serde_json::to_string(&(&t.cfg, &t.tasks, &t.sched)).unwrap_or_default().as_bytes());
        Verdict::Pass { digest: d.finish(), sig, nontrivial: sim.sites.task_switches_at_points >= 1 }
    }
    fn shrink(&self, t: &ConcurrentTrace) -> Vec<ConcurrentTrace> {
        let mut out = Vec::new();
        if t.tasks.len() > 2 {
            for i in 0..t.tasks.len() {
                let mut c = t.clone();
                c.tasks.remove(i);
                c.schedule.clear();
                out.push(c);
            }
        }
        for i in 0..t.tasks.len() {
            if t.tasks[i].len() > 1 {
                for j in 0..t.tasks[i].len() {
                    let mut c = t.clone();
                    c.tasks[i].remove(j);
                    c.schedule.clear();
                    out.push(c);
                }
            }
        }
        for s in sched::shrink_schedule(&t.schedule) {
            let mut c = t.clone();
            c.schedule = s;
            out.push(c);
        }
        out
    }
}
