//! Harness-side IFT encoder, written from the IFT specification and the table
//! layouts in resources/codegen_inputs/ift.rs; independent of the client code.

use std::collections::VecDeque;

pub struct W(pub Vec<u8>);
impl W {
    pub fn new() -> Self {
        W(Vec::new())
    }
    pub fn u8(&mut self, v: u8) {
        self.0.push(v)
    }
    pub fn u16(&mut self, v: u16) {
        self.0.extend_from_slice(&v.to_be_bytes())
    }
    pub fn u24(&mut self, v: u32) {
        self.0.extend_from_slice(&v.to_be_bytes()[1..])
    }
    pub fn i24(&mut self, v: i32) {
        self.0.extend_from_slice(&v.to_be_bytes()[1..])
    }
    pub fn u32(&mut self, v: u32) {
        self.0.extend_from_slice(&v.to_be_bytes())
    }
    pub fn i32(&mut self, v: i32) {
        self.0.extend_from_slice(&v.to_be_bytes())
    }
    pub fn bytes(&mut self, b: &[u8]) {
        self.0.extend_from_slice(b)
    }
    pub fn len(&self) -> usize {
        self.0.len()
    }
    pub fn patch_u32(&mut self, at: usize, v: u32) {
        self.0[at..at + 4].copy_from_slice(&v.to_be_bytes())
    }
}

// ------------------------------------------------------------ brotli (stored)

/// A valid brotli stream consisting only of uncompressed meta-blocks.
pub fn brotli_stored(data: &[u8]) -> Vec<u8> {
    struct Bits {
        out: Vec<u8>,
        cur: u32,
        n: u32,
    }
    impl Bits {
        fn put(&mut self, v: u32, bits: u32) {
            for i in 0..bits {
                let b = (v >> i) & 1;
                self.cur |= b << self.n;
                self.n += 1;
                if self.n == 8 {
                    self.out.push(self.cur as u8);
                    self.cur = 0;
                    self.n = 0;
                }
            }
        }
        fn align(&mut self) {
            if self.n > 0 {
                self.out.push(self.cur as u8);
                self.cur = 0;
                self.n = 0;
            }
        }
    }
    if data.is_empty() {
        return vec![0x06];
    }
    let mut b = Bits { out: Vec::new(), cur: 0, n: 0 };
    b.put(0, 1); // WBITS = 16
    for chunk in data.chunks(65536) {
        b.put(0, 1); // ISLAST = 0
        b.put(0, 2); // MNIBBLES = 4
        b.put(chunk.len() as u32 - 1, 16);
        b.put(1, 1); // ISUNCOMPRESSED
        b.align();
        b.out.extend_from_slice(chunk);
    }
    b.put(1, 1); // ISLAST
    b.put(1, 1); // ISLASTEMPTY
    b.align();
    b.out
}

// ------------------------------------------------------------ sparse bit set

pub fn bf_code(bf: u32) -> u8 {
    match bf {
        2 => 0,
        4 => 1,
        8 => 2,
        _ => 3,
    }
}

pub fn bf_max_height(bf: u32) -> u32 {
    match bf {
        2 => 31,
        4 => 16,
        8 => 11,
        _ => 7,
    }
}

/// Encodes sorted, distinct `members` (already de-biased). `elide` uses the "zero node =
/// completely filled" form where a node's whole range is present.
pub fn sparse_bit_set(members: &[u32], bf: u32, elide: bool) -> Vec<u8> {
    let mut out = Vec::new();
    if members.is_empty() {
        out.push(bf_code(bf));
        return out;
    }
    let max = *members.last().unwrap() as u64;
    let mut height = 1u32;
    while (bf as u64).pow(height) <= max {
        height += 1;
    }
    assert!(height <= bf_max_height(bf), "value does not fit branch factor");
    out.push(bf_code(bf) | ((height as u8) << 2));
    let mut nodes: Vec<u32> = Vec::new();
    // BFS: (start, depth, lo, hi) with members[lo..hi] inside the node
    let mut q: VecDeque<(u64, u32, usize, usize)> = VecDeque::new();
    q.push_back((0, 1, 0, members.len()));
    while let Some((start, depth, lo, hi)) = q.pop_front() {
        let size = (bf as u64).pow(height - depth + 1);
        if elide && (hi - lo) as u64 == size {
            nodes.push(0);
            continue;
        }
        let child = size / bf as u64;
        let mut bits = 0u32;
        let mut i = lo;
        for c in 0..bf as u64 {
            let cs = start + c * child;
            let ce = cs + child;
            let mut j = i;
            while j < hi && (members[j] as u64) < ce {
                j += 1;
            }
            if j > i {
                bits |= 1 << c;
                if depth < height {
                    q.push_back((cs, depth + 1, i, j));
                }
            }
            i = j;
        }
        nodes.push(bits);
    }
    match bf {
        2 | 4 => {
            let mut cur = 0u32;
            let mut n = 0u32;
            for b in nodes {
                cur |= b << n;
                n += bf;
                if n == 8 {
                    out.push(cur as u8);
                    cur = 0;
                    n = 0;
                }
            }
            if n > 0 {
                out.push(cur as u8);
            }
        }
        8 => out.extend(nodes.iter().map(|b| *b as u8)),
        _ => {
            for b in nodes {
                out.extend_from_slice(&b.to_le_bytes());
            }
        }
    }
    out
}

/// Specification-text decoder (used by the C14 codec oracle): returns the members as sorted,
/// merged inclusive intervals (after bias, bounded by max) and the number of bytes consumed, or
/// None if the stream is too short.
pub fn sparse_bit_set_decode_spec(data: &[u8], bias: u32, max_value: u32) -> Option<(Vec<(u32, u32)>, usize)> {
    let first = *data.first()?;
    let bf: u64 = match first & 3 {
        0 => 2,
        1 => 4,
        2 => 8,
        _ => 32,
    };
    let height = ((first >> 2) & 0x1f) as u32;
    if height == 0 {
        return Some((vec![], 1));
    }
    let mut bitpos: usize = 8;
    let read_node = |bitpos: &mut usize| -> Option<u32> {
        let mut v = 0u32;
        for i in 0..bf as usize {
            let p = *bitpos + i;
            let byte = *data.get(p / 8)?;
            v |= (((byte >> (p % 8)) & 1) as u32) << i;
        }
        *bitpos += bf as usize;
        Some(v)
    };
    let mut ivs: Vec<(u32, u32)> = Vec::new();
    let mut q: VecDeque<(u64, u32)> = VecDeque::new();
    q.push_back((0, 1));
    while let Some((start, depth)) = q.pop_front() {
        let bits = read_node(&mut bitpos)?;
        if bits == 0 {
            let size = bf.pow(height - depth + 1);
            let lo = start + bias as u64;
            let hi = (start + size - 1 + bias as u64).min(max_value as u64);
            if lo <= hi {
                ivs.push((lo as u32, hi as u32));
            }
            continue;
        }
        let child = bf.pow(height - depth);
        for c in 0..bf {
            if bits & (1 << c) != 0 {
                if depth == height {
                    let v = start + c + bias as u64;
                    if v <= max_value as u64 {
                        ivs.push((v as u32, v as u32));
                    }
                } else {
                    q.push_back((start + c * child, depth + 1));
                }
            }
        }
        if q.len() > 2_000_000 {
            return Some((ivs, usize::MAX)); // harness budget: caller skips the comparison
        }
    }
    ivs.sort_unstable();
    let mut out: Vec<(u32, u32)> = Vec::with_capacity(ivs.len());
    for (a, b) in ivs {
        if let Some(l) = out.last_mut() {
            if a as u64 <= l.1 as u64 + 1 {
                l.1 = l.1.max(b);
                continue;
            }
        }
        out.push((a, b));
    }
    Some((out, bitpos.div_ceil(8)))
}

// ------------------------------------------------------------ URI templates

const B32HEX: &[u8; 32] = b"0123456789ABCDEFGHIJKLMNOPQRSTUV";
const B64URL: &[u8; 64] = b"ABCDEFGHIJKLMNOPQRSTUVWXYZabcdefghijklmnopqrstuvwxyz0123456789-_";

fn base32hex_nopad(bytes: &[u8]) -> String {
    let mut out = String::new();
    let mut acc = 0u32;
    let mut n = 0;
    for b in bytes {
        acc = (acc << 8) | *b as u32;
        n += 8;
        while n >= 5 {
            out.push(B32HEX[((acc >> (n - 5)) & 31) as usize] as char);
            n -= 5;
        }
    }
    if n > 0 {
        out.push(B32HEX[((acc << (5 - n)) & 31) as usize] as char);
    }
    out
}

fn base64url_pad(bytes: &[u8]) -> String {
    let mut out = String::new();
    for c in bytes.chunks(3) {
        let v = (c[0] as u32) << 16 | (*c.get(1).unwrap_or(&0) as u32) << 8 | *c.get(2).unwrap_or(&0) as u32;
        out.push(B64URL[(v >> 18) as usize & 63] as char);
        out.push(B64URL[(v >> 12) as usize & 63] as char);
        if c.len() > 1 {
            out.push(B64URL[(v >> 6) as usize & 63] as char);
        } else {
            out.push('=');
        }
        if c.len() > 2 {
            out.push(B64URL[v as usize & 63] as char);
        } else {
            out.push('=');
        }
    }
    out
}

pub fn id_bytes_numeric(id: u32) -> Vec<u8> {
    let b = id.to_be_bytes();
    let lead = b.iter().take_while(|x| **x == 0).count().min(3);
    b[lead..].to_vec()
}

/// Expands the template variables the IFT spec defines: {id} {d1} {d2} {d3} {d4} {id64}.
/// Templates used by the harness contain only unreserved literals.
pub fn expand_uri(template: &str, id_bytes: &[u8]) -> String {
    let id = base32hex_nopad(id_bytes);
    let id64: String = base64url_pad(id_bytes).chars().map(|c| if c == '=' { "%3D".to_string() } else { c.to_string() }).collect();
    let digit = |k: usize| -> String {
        let b = id.as_bytes();
        if b.len() >= k {
            (b[b.len() - k] as char).to_string()
        } else {
            "_".to_string()
        }
    };
    template
        .replace("{id64}", &id64)
        .replace("{id}", &id)
        .replace("{d1}", &digit(1))
        .replace("{d2}", &digit(2))
        .replace("{d3}", &digit(3))
        .replace("{d4}", &digit(4))
}

// ------------------------------------------------------------ patches

pub struct TableOp {
    pub tag: [u8; 4],
    /// 0 = diff against base, 1 = replace, 2 = drop
    pub flags: u8,
    pub data: Vec<u8>,
    /// override for max_uncompressed_length (fault injection); None = exact
    pub max_len: Option<u32>,
    /// simulated codec only, diffs only: the output ends with this many leading bytes of the dictionary
    pub copy: u32,
}

// ------------------------------------------------------------ simulated codec (decoder seam)
//
// A stand-in for a compressed stream whose meaning depends on the dictionary it was encoded against,
// which stored brotli meta-blocks cannot express. `SimDecoder` decodes it; the real C decoder never sees it.
//   magic[4]  mode(u8: 0 = encoded without a dictionary, 1 = encoded against the base table)
//   copy(u32) literal_len(u32) literal
// decode(stream, dict): mode 0 with a dictionary or mode 1 without one is an invalid stream (as a
// brotli stream decoded against the wrong dictionary is); output = literal ++ dict[..copy].
pub const SIM_MAGIC: [u8; 4] = [0xCE, b'S', b'I', b'M'];

pub fn sim_stream(literal: &[u8], against_dictionary: bool, copy: u32) -> Vec<u8> {
    let mut w = W::new();
    w.bytes(&SIM_MAGIC);
    w.u8(against_dictionary as u8);
    w.u32(copy);
    w.u32(literal.len() as u32);
    w.bytes(literal);
    w.0
}

/// None: not a simulated stream. Some(Err(kind)): invalid (kind as in `decode_error_kind`).
pub fn sim_decode(stream: &[u8], dict: Option<&[u8]>, max: usize) -> Option<Result<Vec<u8>, u8>> {
    if stream.len() < 4 || stream[..4] != SIM_MAGIC {
        return None;
    }
    if stream.len() < 13 {
        return Some(Err(1));
    }
    let mode = stream[4];
    let copy = u32::from_be_bytes([stream[5], stream[6], stream[7], stream[8]]) as usize;
    let len = u32::from_be_bytes([stream[9], stream[10], stream[11], stream[12]]) as usize;
    if mode > 1 || stream.len() < 13 + len {
        return Some(Err(1));
    }
    if stream.len() > 13 + len {
        return Some(Err(4));
    }
    match (mode, dict) {
        (0, Some(_)) => return Some(Err(1)),
        (1, None) => return Some(Err(2)),
        _ => {}
    }
    let mut out = stream[13..13 + len].to_vec();
    if mode == 1 {
        let d = dict.unwrap_or(&[]);
        if copy > d.len() {
            return Some(Err(1));
        }
        out.extend_from_slice(&d[..copy]);
    }
    if out.len() > max {
        return Some(Err(3));
    }
    Some(Ok(out))
}

pub fn table_keyed_patch(compat: &[u8; 16], ops: &[TableOp], sim: bool) -> Vec<u8> {
    let mut w = W::new();
    w.bytes(b"iftk");
    w.u32(0);
    w.bytes(compat);
    w.u16(ops.len() as u16);
    let offsets_at = w.len();
    for _ in 0..=ops.len() {
        w.u32(0);
    }
    for (i, op) in ops.iter().enumerate() {
        let at = w.len() as u32;
        w.patch_u32(offsets_at + i * 4, at);
        w.bytes(&op.tag);
        w.u8(op.flags);
        let copy = if sim && op.flags == 0 { op.copy } else { 0 };
        w.u32(op.max_len.unwrap_or(op.data.len() as u32 + copy));
        if op.flags & 2 == 0 {
            if sim {
                w.bytes(&sim_stream(&op.data, op.flags == 0, copy));
            } else {
                w.bytes(&brotli_stored(&op.data));
            }
        }
    }
    let end = w.len() as u32;
    w.patch_u32(offsets_at + ops.len() * 4, end);
    w.0
}

pub struct GlyphPatchSpec {
    pub wide: bool,
    pub gids: Vec<u32>,
    pub tables: Vec<[u8; 4]>,
    /// data[table][glyph]
    pub data: Vec<Vec<Vec<u8>>>,
}

pub fn glyph_patches_stream(p: &GlyphPatchSpec) -> Vec<u8> {
    let mut w = W::new();
    w.u32(p.gids.len() as u32);
    w.u8(p.tables.len() as u8);
    for g in &p.gids {
        if p.wide {
            w.u24(*g);
        } else {
            w.u16(*g as u16);
        }
    }
    for t in &p.tables {
        w.bytes(t);
    }
    let n_off = p.gids.len() * p.tables.len() + 1;
    let offsets_at = w.len();
    for _ in 0..n_off {
        w.u32(0);
    }
    let mut k = 0;
    for t in 0..p.tables.len() {
        for g in 0..p.gids.len() {
            let at = w.len() as u32;
            w.patch_u32(offsets_at + k * 4, at);
            k += 1;
            w.bytes(&p.data[t][g]);
        }
    }
    let end = w.len() as u32;
    w.patch_u32(offsets_at + k * 4, end);
    w.0
}

pub fn glyph_keyed_patch(compat: &[u8; 16], p: &GlyphPatchSpec, max_len_override: Option<u32>, sim: bool) -> Vec<u8> {
    let stream = glyph_patches_stream(p);
    let mut w = W::new();
    w.bytes(b"ifgk");
    w.u32(0);
    w.u8(if p.wide { 1 } else { 0 });
    w.bytes(compat);
    w.u32(max_len_override.unwrap_or(stream.len() as u32));
    if sim {
        w.bytes(&sim_stream(&stream, false, 0));
    } else {
        w.bytes(&brotli_stored(&stream));
    }
    w.0
}

// ------------------------------------------------------------ mapping tables

#[derive(Clone, Debug)]
pub struct EntryEnc {
    pub codepoints: Vec<u32>,
    /// 0 = none, 1 = no bias, 2 = u16 bias, 3 = u24 bias
    pub cp_mode: u8,
    pub bias: u32,
    pub bf: u32,
    pub elide: bool,
    pub features: Vec<[u8; 4]>,
    pub design: Vec<([u8; 4], i32, i32)>,
    /// always write the features/design-space block, even if both are empty
    pub force_fds_block: bool,
    pub children: Vec<u32>,
    pub conjunctive: bool,
    pub id_delta: Option<i32>,
    pub id_string: Option<Vec<u8>>,
    pub format: Option<u8>,
    pub ignored: bool,
}

pub struct Format2Enc {
    pub compat: [u8; 16],
    pub default_format: u8,
    pub template: String,
    pub entries: Vec<EntryEnc>,
    pub string_ids: bool,
    pub cff_offset: Option<u32>,
    pub cff2_offset: Option<u32>,
}

/// Returns the table bytes and, per entry, the byte offset of its format-flags byte
/// (the ignored/applied bit lives in bit 6 of that byte).
pub fn format2_table(t: &Format2Enc) -> (Vec<u8>, Vec<usize>) {
    let mut w = W::new();
    w.u8(2);
    w.u8(0);
    w.u8(0);
    w.u8(0);
    let mut ff = 0u8;
    if t.cff_offset.is_some() {
        ff |= 1;
    }
    if t.cff2_offset.is_some() {
        ff |= 2;
    }
    w.u8(ff);
    w.bytes(&t.compat);
    w.u8(t.default_format);
    w.u24(t.entries.len() as u32);
    let entries_off_at = w.len();
    w.u32(0);
    let idstr_off_at = w.len();
    w.u32(0);
    w.u16(t.template.len() as u16);
    w.bytes(t.template.as_bytes());
    if let Some(o) = t.cff_offset {
        w.u32(o);
    }
    if let Some(o) = t.cff2_offset {
        w.u32(o);
    }
    let entries_start = w.len();
    w.patch_u32(entries_off_at, entries_start as u32);
    let mut flag_pos = Vec::new();
    let mut idstrings: Vec<u8> = Vec::new();
    for e in &t.entries {
        flag_pos.push(w.len());
        let fds = e.force_fds_block || !e.features.is_empty() || !e.design.is_empty();
        let mut flags = 0u8;
        if fds {
            flags |= 1;
        }
        if !e.children.is_empty() {
            flags |= 2;
        }
        let has_delta = if t.string_ids { e.id_string.is_some() } else { e.id_delta.is_some() };
        if has_delta {
            flags |= 4;
        }
        if e.format.is_some() {
            flags |= 8;
        }
        flags |= (e.cp_mode & 3) << 4;
        if e.ignored {
            flags |= 0x40;
        }
        w.u8(flags);
        if fds {
            w.u8(e.features.len() as u8);
            for f in &e.features {
                w.bytes(f);
            }
            w.u16(e.design.len() as u16);
            for (tag, s, en) in &e.design {
                w.bytes(tag);
                w.i32(*s);
                w.i32(*en);
            }
        }
        if !e.children.is_empty() {
            w.u8((e.children.len() as u8 & 0x7f) | if e.conjunctive { 0x80 } else { 0 });
            for c in &e.children {
                w.u24(*c);
            }
        }
        if has_delta {
            if t.string_ids {
                let s = e.id_string.as_ref().unwrap();
                w.u16(s.len() as u16);
                idstrings.extend_from_slice(s);
            } else {
                w.i24(e.id_delta.unwrap());
            }
        }
        if let Some(f) = e.format {
            w.u8(f);
        }
        if e.cp_mode != 0 {
            match e.cp_mode {
                2 => w.u16(e.bias as u16),
                3 => w.u24(e.bias),
                _ => {}
            }
            let b = if e.cp_mode == 1 { 0 } else { e.bias };
            let rel: Vec<u32> = e.codepoints.iter().map(|c| c - b).collect();
            w.bytes(&sparse_bit_set(&rel, e.bf, e.elide));
        }
    }
    if t.string_ids {
        let at = w.len() as u32;
        w.patch_u32(idstr_off_at, at);
        w.bytes(&idstrings);
    }
    (w.0, flag_pos)
}

pub struct Format1Enc {
    pub compat: [u8; 16],
    pub patch_format: u8,
    pub template: String,
    pub glyph_count: u32,
    pub max_entry_index: u16,
    pub max_glyph_map_entry_index: u16,
    pub first_mapped_glyph: u16,
    /// entry index per glyph id from first_mapped_glyph
    pub glyph_entries: Vec<u16>,
    /// (feature tag, first_new_entry_index, [(first,last)])
    pub features: Vec<([u8; 4], u16, Vec<(u16, u16)>)>,
    pub applied: Vec<u16>,
    pub cff_offset: Option<u32>,
    pub cff2_offset: Option<u32>,
}

/// Returns the table bytes and the byte offset of the applied-entries bitmap.
pub fn format1_table(t: &Format1Enc) -> (Vec<u8>, usize) {
    let wide = t.max_entry_index >= 256;
    let mut w = W::new();
    w.u8(1);
    w.u8(0);
    w.u8(0);
    w.u8(0);
    let mut ff = 0u8;
    if t.cff_offset.is_some() {
        ff |= 1;
    }
    if t.cff2_offset.is_some() {
        ff |= 2;
    }
    w.u8(ff);
    w.bytes(&t.compat);
    w.u16(t.max_entry_index);
    w.u16(t.max_glyph_map_entry_index);
    w.u24(t.glyph_count);
    let gm_at = w.len();
    w.u32(0);
    let fm_at = w.len();
    w.u32(0);
    let bitmap_at = w.len();
    let bitmap_len = (t.max_entry_index as usize + 8) / 8;
    let mut bitmap = vec![0u8; bitmap_len];
    for a in &t.applied {
        bitmap[*a as usize / 8] |= 1 << (a % 8);
    }
    w.bytes(&bitmap);
    w.u16(t.template.len() as u16);
    w.bytes(t.template.as_bytes());
    w.u8(t.patch_format);
    if let Some(o) = t.cff_offset {
        w.u32(o);
    }
    if let Some(o) = t.cff2_offset {
        w.u32(o);
    }
    let at = w.len() as u32;
    w.patch_u32(gm_at, at);
    w.u16(t.first_mapped_glyph);
    for e in &t.glyph_entries {
        if wide {
            w.u16(*e);
        } else {
            w.u8(*e as u8);
        }
    }
    if !t.features.is_empty() {
        let at = w.len() as u32;
        w.patch_u32(fm_at, at);
        w.u16(t.features.len() as u16);
        for (tag, first_new, recs) in &t.features {
            w.bytes(tag);
            if wide {
                w.u16(*first_new);
                w.u16(recs.len() as u16);
            } else {
                w.u8(*first_new as u8);
                w.u8(recs.len() as u8);
            }
        }
        for (_, _, recs) in &t.features {
            for (f, l) in recs {
                if wide {
                    w.u16(*f);
                    w.u16(*l);
                } else {
                    w.u8(*f as u8);
                    w.u8(*l as u8);
                }
            }
        }
    }
    (w.0, bitmap_at)
}
