mod checks;
mod core;
mod corpus;
mod engines;
mod ift;
mod synth;

use crate::core::runner::{self, DriverOpts, WorkerArgs};

fn arg_after(args: &[String], flag: &str) -> Option<String> {
    args.iter().position(|a| a == flag).and_then(|i| args.get(i + 1).cloned())
}

fn profile() -> &'static str {
    if cfg!(debug_assertions) {
        "strict"
    } else {
        "plain"
    }
}

fn main() {
    let args: Vec<String> = std::env::args().collect();
    let cmd = args.get(1).map(|s| s.as_str()).unwrap_or("");
    let code = match cmd {
        "run" => {
            let prop = args.get(2).cloned().unwrap_or_default();
            let Some(check) = checks::check(&prop) else {
                eprintln!("unknown check {prop}");
                std::process::exit(2);
            };
            let tier = arg_after(&args, "--tier").unwrap_or_else(|| std::env::var("VERIF_TIER").unwrap_or_else(|_| "quick".into()));
            let seed = arg_after(&args, "--seed")
                .or_else(|| std::env::var("VERIF_SEED").ok())
                .and_then(|s| s.trim().parse::<u64>().ok())
                .unwrap_or(1);
            let workers = arg_after(&args, "--workers").and_then(|s| s.parse().ok()).unwrap_or(16);
            let opts = DriverOpts {
                check: prop.clone(),
                tier: tier.clone(),
                seed,
                workers,
                cases_override: arg_after(&args, "--cases").and_then(|s| s.parse().ok()),
                digests_file: arg_after(&args, "--digests"),
                // wall-clock cap per part: workers stop taking new cases after it (reported in the evidence)
                deadline_s: arg_after(&args, "--deadline").and_then(|s| s.parse().ok()).unwrap_or(if tier == "thorough" { 420 } else { 150 }),
                only_part: arg_after(&args, "--part"),
                profile: profile().to_string(),
            };
            eprintln!("VERIF_SEED={seed} check={prop} tier={tier} profile={} workers={workers}", profile());
            // a panic of the driver itself (generation, triage) is a harness error, reported as such
            match std::panic::catch_unwind(std::panic::AssertUnwindSafe(|| runner::drive(&check, &opts))) {
                Ok(code) => code,
                Err(_) => {
                    let site = core::panics::take().map(|p| format!("{}: {}", p.site(), p.msg)).unwrap_or_else(|| "unknown site".into());
                    eprintln!("HARNESS-ERROR: the driver panicked at {site}");
                    2
                }
            }
        }
        "worker" => {
            // worker <check> <part> <seed> <k> <W> <from> <cases> <deadline> <digests>
            let g = |i: usize| args.get(i).cloned().unwrap_or_default();
            let Some(check) = checks::check(&g(2)) else { std::process::exit(2) };
            let part = &check.parts[g(3).parse::<usize>().unwrap_or(0)];
            let wa = WorkerArgs {
                seed: g(4).parse().unwrap_or(1),
                k: g(5).parse().unwrap_or(0),
                w: g(6).parse().unwrap_or(1),
                from: g(7).parse().unwrap_or(0),
                cases: g(8).parse().unwrap_or(0),
                deadline_s: g(9).parse().unwrap_or(0),
                digests: g(10) == "1",
                samples: 2,
            };
            runner::worker_main(part, &wa);
            0
        }
        "replay" => {
            let path = args.get(2).cloned().unwrap_or_default();
            runner::replay_main(&path, &|check, scenario| {
                let c = checks::check(check)?;
                for p in c.parts {
                    if p.scenario.name() == scenario {
                        return Some((p.scenario, p.panic_prop));
                    }
                }
                None
            })
        }
        "replayn" => {
            // debugging aid: run a replay file's trace several times in one process
            let path = args.get(2).cloned().unwrap_or_default();
            let v: serde_json::Value = serde_json::from_str(&std::fs::read_to_string(&path).unwrap_or_default()).unwrap_or_default();
            let c = checks::check(v["check"].as_str().unwrap_or("")).unwrap();
            let sc = c.parts.into_iter().find(|p| p.scenario.name() == v["scenario"].as_str().unwrap_or("")).unwrap().scenario;
            crate::core::panics::install();
            for i in 0..5 {
                let mut st = crate::core::Stats::default();
                let (verdict, _) = sc.run_trace(&v["trace"], &mut st);
                match verdict {
                    crate::core::Verdict::Fail(x) => println!("run {i}: FAIL {}", x.oracle),
                    crate::core::Verdict::Pass { digest, .. } => println!("run {i}: pass {digest:x}"),
                    crate::core::Verdict::Inconclusive(w) => println!("run {i}: inconclusive {w}"),
                }
            }
            0
        }
        "jobdigest" => {
            let hs = args.get(2).and_then(|s| s.parse().ok()).unwrap_or(1);
            let layout = args.get(4).and_then(|s| s.parse().ok()).unwrap_or(0);
            engines::compile::jobdigest_main(hs, layout, args.get(3).map(|s| s.as_str()).unwrap_or("[]"))
        }
        "hintprobe" => {
            // shows that push_i32 leaves the intended value on the interpreter's stack: point 2 is moved by it
            use skrifa::MetadataProvider;
            for v in [5i32, 196_613, -196_613, 0x0123_4567, -0x0123_4567, 70_000, -40_000, 0x00FF_FFFF] {
                let mut prog = vec![0xB8, 0, 2];
                prog.extend(engines::hintops::push_i32(v));
                prog.push(0x38);
                let font = synth::build_custom(&prog, &[], &[], &[]);
                let f = skrifa::raw::FontRef::new(&font).unwrap();
                let o = f.outline_glyphs();
                let inst = skrifa::outline::HintingInstance::new(&o, skrifa::instance::Size::new(1024.0), skrifa::instance::LocationRef::default(), skrifa::outline::HintingOptions { engine: engines::drawhist::engine_of(0), target: engines::drawhist::target_of(0) }).unwrap();
                let mut rec = engines::drawhist::Recording::default();
                let r = o.get(skrifa::GlyphId::new(1)).unwrap().draw(skrifa::outline::DrawSettings::hinted(&inst, true), &mut rec);
                let xs: Vec<f32> = rec.cmds.iter().map(|c| f32::from_bits(c.1[0])).collect();
                println!("v={v} expected shift {:.3} -> {:?} {:?}", v as f64 / 64.0, r.is_ok(), xs);
            }
            0
        }
        "counts" => {
            println!("table windows: {}", engines::images::table_window_count());
            println!("outline chunks (quick): {}", engines::images::outline_chunk_count_quick());
            println!("table pairs: {}", engines::images::table_pairs().len());
            0
        }
        "hashprobe" => {
            // selftest helper: shows that the hash-seed seam is effective
            for seed in [0u64, 1, 1, 2] {
                let o = core::hashseed::run_on_fresh_thread(seed, 1 << 20, core::hashseed::probe_order).unwrap();
                println!("seed {seed}: {:?}", &o[..8]);
            }
            0
        }
        _ => {
            eprintln!("usage: verif-sim run <property> [--tier quick|thorough] [--seed N] [--workers W] [--cases N] [--digests FILE] [--part NAME]\n       verif-sim replay <file>");
            2
        }
    };
    std::process::exit(code);
}
