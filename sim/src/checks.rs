//! Which scenarios decide which property, and with what budget per tier.

use crate::core::runner::{CheckDef, Part};
use crate::core::{Erased, Scenario};
use crate::engines;

fn part(sc: Box<dyn Scenario>, quick: u64, thorough: u64, panic_prop: &'static str, cap: u64) -> Part {
    Part { scenario: sc, quick, thorough, panic_prop, case_cap_s: cap }
}

pub fn check(property: &str) -> Option<CheckDef> {
    match property {
        "C07" => Some(CheckDef {
            property: "C07",
            level: "exploration",
            parts: vec![part(Box::new(Erased(engines::compile::CompileDeterminism)), 6_000, 200_000, "C07", 120)],
            assumptions: vec![
                "shuttle coroutines stand in for OS threads: only the interleaving of object-id allocations and job boundaries is explored, which is the only shared state of compilation (one AtomicU64)",
                "std HashMap keys are the only unseeded randomness; they are controlled through the getrandom symbol",
                "reference digests come from the same build running alone; only agreement is required, no golden bytes",
            ],
        }),
        "C18" => Some(CheckDef {
            property: "C18",
            level: "fault_enumeration",
            parts: vec![
                part(Box::new(Erased(engines::ift::IftFaultFree)), 20_000, 1_000_000, "C02", 60),
                part(Box::new(Erased(engines::ift::IftFaulty)), 20_000, 1_000_000, "C02", 60),
                part(Box::new(Erased(engines::ift::IftDecoderEnum)), 3_000, 150_000, "C02", 120),
            ],
            assumptions: vec![
                "the reference model and the IFT encoder are written from the specification and the table layouts, calibrated once against the unchanged tree",
                "patches carry brotli streams made of uncompressed meta-blocks, decoded by the real C decoder; dictionary-dependent diffs are therefore not exercised",
                "carriers: glyf/loca short and long, gvar short and long; CFF/CFF2 carriers are not generated",
            ],
        }),
        "C19" => Some(CheckDef {
            property: "C19",
            level: "exploration",
            parts: vec![
                part(Box::new(Erased(engines::ift::IftFaultFree)), 20_000, 1_000_000, "C02", 60),
                part(Box::new(Erased(engines::ift::IftFaulty)), 20_000, 1_000_000, "C02", 60),
            ],
            assumptions: vec![
                "intersection and grouping rules are modelled from the property statement and the specification's algorithms; child entries are evaluated regardless of their own ignored flag (calibrated against the unchanged tree)",
                "liveness is bounded progress: every Ok round applies a new URI; fixpoint within (#distinct URIs + #definitions + 2) rounds after the last fault",
            ],
        }),
        "C12" => Some(CheckDef {
            property: "C12",
            level: "exploration",
            parts: vec![
                part(Box::new(Erased(engines::drawhist::DrawHistory { stale: false })), 150_000, 4_000_000, "C02", 60),
                part(Box::new(Erased(engines::drawhist::ConcurrentDraws)), 15_000, 500_000, "C02", 60),
            ],
            assumptions: vec![
                "the reference for every draw is a freshly constructed instance of the same configuration with library memory and no location on the same thread",
                "state leaks are made visible by synthetic fonts whose glyph programs read storage, CVT, function/instruction definitions and twilight points they never wrote",
            ],
        }),
        "C14" => Some(CheckDef {
            property: "C14",
            level: "exploration",
            parts: vec![
                part(Box::new(Erased(engines::histmodels::IntSetHistory)), 120_000, 3_000_000, "C14", 60),
                part(Box::new(Erased(engines::histmodels::SparseBitSetCodec)), 6_000, 200_000, "C14", 60),
                part(Box::new(Erased(engines::histmodels::RangeSetHistory)), 100_000, 2_000_000, "C14", 60),
            ],
            assumptions: vec![
                "integer sets are single-owner values: no schedule, clock or I/O exists for them; what is explored is operation histories against a reference model (the fault and schedule axes are empty and reported as such)",
                "Ord is modelled as the lexicographic order of the ascending member sequences",
                "the sparse-bit-set specification decoder is the harness's own reading of the IFT specification text",
            ],
        }),
        _ => None,
    }
}

pub const ALL: &[&str] = &["C07", "C12", "C14", "C18", "C19"];
