pub mod compile;
pub mod drawhist;
pub mod hintops;
pub mod histmodels;
pub mod ift;
pub mod images;
pub mod paintmon;
pub mod sched;
