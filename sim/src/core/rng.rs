//! The only source of choice in the simulator: SplitMix64 seeded from VERIF_SEED.

#[derive(Clone, Debug)]
pub struct Rng(pub u64);

pub fn mix(a: u64, b: u64) -> u64 {
    let mut r = Rng(a ^ b.wrapping_mul(0x9E37_79B9_7F4A_7C15).rotate_left(17));
    r.next_u64();
    r.next_u64()
}

pub fn hash_str(s: &str) -> u64 {
    fnv(s.as_bytes())
}

pub fn fnv(bytes: &[u8]) -> u64 {
    let mut h: u64 = 0xcbf2_9ce4_8422_2325;
    for b in bytes {
        h ^= *b as u64;
        h = h.wrapping_mul(0x0000_0100_0000_01B3);
    }
    h
}

/// Incremental digest used for observation logs (order-sensitive).
#[derive(Clone, Debug)]
pub struct Digest(pub u64);

impl Default for Digest {
    fn default() -> Self {
        Digest(0xcbf2_9ce4_8422_2325)
    }
}

impl Digest {
    pub fn new() -> Self {
        Self::default()
    }
    pub fn bytes(&mut self, b: &[u8]) {
        self.u64(b.len() as u64);
        // 8 bytes at a time
        let mut chunks = b.chunks_exact(8);
        for c in &mut chunks {
            let v = u64::from_le_bytes(c.try_into().unwrap());
            self.0 = (self.0 ^ v).wrapping_mul(0x0000_0100_0000_01B3).rotate_left(23);
        }
        for x in chunks.remainder() {
            self.0 = (self.0 ^ *x as u64).wrapping_mul(0x0000_0100_0000_01B3);
        }
    }
    pub fn u64(&mut self, v: u64) {
        self.0 = (self.0 ^ v).wrapping_mul(0x0000_0100_0000_01B3).rotate_left(29);
    }
    pub fn str(&mut self, s: &str) {
        self.bytes(s.as_bytes())
    }
    pub fn finish(&self) -> u64 {
        mix(self.0, 0x1234_5678)
    }
}

impl Rng {
    pub fn new(seed: u64) -> Self {
        Rng(seed)
    }
    pub fn next_u64(&mut self) -> u64 {
        self.0 = self.0.wrapping_add(0x9E37_79B9_7F4A_7C15);
        let mut z = self.0;
        z = (z ^ (z >> 30)).wrapping_mul(0xBF58_476D_1CE4_E5B9);
        z = (z ^ (z >> 27)).wrapping_mul(0x94D0_49BB_1331_11EB);
        z ^ (z >> 31)
    }
    pub fn next_u32(&mut self) -> u32 {
        (self.next_u64() >> 32) as u32
    }
    /// Uniform in 0..n (n > 0).
    pub fn below(&mut self, n: u64) -> u64 {
        if n <= 1 {
            return 0;
        }
        ((self.next_u64() as u128 * n as u128) >> 64) as u64
    }
    pub fn usize_below(&mut self, n: usize) -> usize {
        self.below(n as u64) as usize
    }
    /// Uniform in lo..=hi.
    pub fn range(&mut self, lo: i64, hi: i64) -> i64 {
        debug_assert!(lo <= hi);
        lo + self.below((hi - lo) as u64 + 1) as i64
    }
    pub fn chance(&mut self, num: u64, den: u64) -> bool {
        self.below(den) < num
    }
    pub fn pick<'a, T>(&mut self, xs: &'a [T]) -> &'a T {
        &xs[self.usize_below(xs.len())]
    }
    pub fn shuffle<T>(&mut self, xs: &mut [T]) {
        for i in (1..xs.len()).rev() {
            let j = self.usize_below(i + 1);
            xs.swap(i, j);
        }
    }
    pub fn fork(&mut self, label: u64) -> Rng {
        Rng(mix(self.next_u64(), label))
    }
    pub fn bytes(&mut self, n: usize) -> Vec<u8> {
        let mut v = Vec::with_capacity(n);
        while v.len() < n {
            let x = self.next_u64().to_le_bytes();
            let take = (n - v.len()).min(8);
            v.extend_from_slice(&x[..take]);
        }
        v
    }
    /// Pick an index according to integer weights.
    pub fn weighted(&mut self, weights: &[u32]) -> usize {
        let total: u64 = weights.iter().map(|w| *w as u64).sum();
        let mut x = self.below(total.max(1));
        for (i, w) in weights.iter().enumerate() {
            if x < *w as u64 {
                return i;
            }
            x -= *w as u64;
        }
        weights.len() - 1
    }
}
